(* Model of the element-wise State arithmetic and of inner_product / normalise (components/state.rs).
   No proofs here. *)
From Coq Require Import List NArith Bool.
From QI Require Import Base.ListAux Base.Scalar Model.Outcome Model.Validate Model.Gates.
Import ListNotations.
Open Scope N_scope.

Section StateOps.
Context {T : Type} (O : sops T).
Notation C := (@C T).
Notation state := (state (T:=T)).

(* State * Complex: amplitude * rhs;  Complex * State: lhs * amplitude *)
Definition vscale (c : C) (v : list C) : list C := map (fun a => cmul O a c) v.
Definition vscale_l (c : C) (v : list C) : list C := map (fun a => cmul O c a) v.
Definition vadd (a b : list C) : list C := map (fun p => cadd O (fst p) (snd p)) (combine a b).
Definition vsub (a b : list C) : list C := map (fun p => csub O (fst p) (snd p)) (combine a b).
Definition scale_state (c : C) (st : state) : state := mkState (nq st) (vscale c (vec st)).
(* State + State panics on a width mismatch *)
Definition add_states (a b : state) : outcome state :=
  if negb (nq a =? nq b) then Panic else Ok (mkState (nq a) (vadd (vec a) (vec b))).
Definition sub_states (a b : state) : outcome state :=
  if negb (nq a =? nq b) then Panic else Ok (mkState (nq a) (vsub (vec a) (vec b))).
(* impl Sum for State: first element is the accumulator; empty iterator panics *)
Definition sum_states (l : list state) : outcome state :=
  match l with
  | [] => Panic
  | s :: r => fold_left (fun acc x => bind acc (fun a => add_states a x)) r (Ok s)
  end.

(* inner_product: conj on self; sequential .sum() = fold from zero (the rayon form above 64 amplitudes uses some
   split tree: equal in exact arithmetic, see C03_sum_any_split) *)
Definition inner_vec (a b : list C) : C :=
  fold_left (fun acc p => cadd O acc (cmul O (cconj O (fst p)) (snd p))) (combine a b) (c0 O).
Definition inner_product (a b : state) : outcome C :=
  if (nq a =? 0) || (nq b =? 0) then Err (InvalidNumberOfQubits 0)
  else if negb (len (vec a) =? len (vec b)) then Err (InvalidNumberOfQubits (nq a))
  else Ok (inner_vec (vec a) (vec b)).

Definition norm2_vec (a : list C) : T := fold_left (fun acc x => sadd O acc (cnorm2 O x)) a (s0 O).
(* normalise: norm = sqrt(sum |x|^2); 0 -> ZeroNorm; 1 -> clone; else x / norm *)
Definition normalise (a : state) : outcome state :=
  let nrm := ssqrt O (norm2_vec (vec a)) in
  if seqb O nrm (s0 O) then Err ZeroNorm
  else if seqb O nrm (s1 O) then Ok a
  else Ok (mkState (nq a) (map (fun x => cdivr O x nrm) (vec a))).

Fixpoint collect {A} (l : list (outcome A)) : outcome (list A) :=
  match l with
  | [] => Ok []
  | x :: r => bind x (fun a => bind (collect r) (fun t => Ok (a :: t)))
  end.
End StateOps.
