#!/bin/sh
# usage: tools/confirm_mut.sh <ID> <mN> ...  -- independently confirm a seeded change in the scratch worktree /tmp/mut/<ID>:
# (1) suite passes with the change, (2) demo fails with it, (3) demo passes without it. Prints one line per mutant.
id=$1; shift
wt=/tmp/mut/$id
export CARGO_TARGET_DIR=$wt/target CARGO_NET_OFFLINE=true
for m in "$@"; do
  d=/tmp/mut/$id-out/$m
  cd $wt && git checkout -q -- . && git clean -qfd tests 2>/dev/null
  git apply $d/patch.diff || { echo "$id/$m: patch does not apply"; continue; }
  suite=$(cargo test --workspace --no-fail-fast --offline 2>&1 | grep -E "^test result" | head -1)
  mkdir -p tests && cp $d/demo.rs tests/demo_${id}_$m.rs
  cargo test --offline --test demo_${id}_$m > /tmp/mut/$id-out/$m/demo_with.log 2>&1; with=$?
  git checkout -q -- .
  cargo test --offline --test demo_${id}_$m > /tmp/mut/$id-out/$m/demo_without.log 2>&1; without=$?
  git clean -qfd tests
  echo "$id/$m: suite_with_change=[$suite] demo_with_change_exit=$with demo_without_change_exit=$without"
done
