#!/usr/bin/env python3
"""usage: save_seeded.py <PROP> <mN> <caught_by_csv|none> -- copy a confirmed seeded change from /tmp/mut into /verif/seeded/<PROP>-<mN>/"""
import sys, os, json, shutil, re
prop, m, caught = sys.argv[1:4]
src = "/tmp/mut/%s-out/%s" % (prop, m)
dst = "/verif/seeded/%s-%s" % (prop, m)
os.makedirs(dst, exist_ok=True)
shutil.copy(src + "/patch.diff", dst + "/patch.diff")
shutil.copy(src + "/demo.rs", dst + "/demo.rs")
notes = open(src + "/notes.md").read()
conf = ""
for l in open("/tmp/mut/confirm.log"):
    if l.startswith("%s/%s:" % (prop, m)):
        conf = l.strip()
meta = {
    "id": "%s-%s" % (prop, m), "breaks_property": prop,
    "author": "independent sub-agent given only the property text and a scratch worktree",
    "what_and_needs_to_manifest": notes,
    "confirmed_by_me": {"how": "tools/confirm_mut.sh in scratch worktree /tmp/mut/%s: full suite with the change, demo with the change, demo without it" % prop,
                        "result": conf},
    "checks_run_against_it": "tools/trymut.sh patch.diff <props> (applies to /repo, runs ./check, reverts)",
    "caught_by": [] if caught == "none" else caught.split(","),
}
json.dump(meta, open(dst + "/meta.json", "w"), indent=1)
print("saved", dst)
