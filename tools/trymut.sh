#!/bin/sh
# usage: tools/trymut.sh <patch.diff> <prop> [<prop>...]   -- apply a seeded change to /repo, run the checks, undo it.
# Evidence of these runs goes to /tmp/verif-mut-evidence so that committed evidence stays that of the unchanged tree.
patch=$1; shift
cd /verif
git -C /repo diff --quiet || { echo "/repo has uncommitted changes; refusing"; exit 2; }
git -C /repo apply "$patch" 2>/dev/null || (cd /repo && patch -p1 -s --fuzz=3 --no-backup-if-mismatch < "$patch") || { echo "patch does not apply"; git -C /repo checkout -- .; exit 2; }
for p in "$@"; do
  VERIF_EVIDENCE_DIR=/tmp/verif-mut-evidence ./check $p --tier ${TIER:-quick} > /tmp/verif-mut-$p.log 2>&1
  echo "== $p exit=$? $(grep -m1 VIOLATION /tmp/verif-mut-$p.log) | $(grep -A1 -m1 VIOLATION /tmp/verif-mut-$p.log | tail -1 | cut -c1-200)"
done
git -C /repo checkout -- .
# files the C07 check regenerates from /repo (now restored): put the committed versions back so that they are never committed in a patched state
git -C /verif checkout -- coq/theories/Gen/WiringTable.v harness-surfaces/src/main.rs 2>/dev/null
