#!/bin/sh
# usage: tools/lanes.sh <listfile> [lanes=4]
# Runs seeded changes against checks IN PARALLEL without touching /repo or /verif: every lane is a private copy of both trees that is
# bind-mounted over /repo and /verif (and a private /tmp) inside its own mount namespace (unshare -m), so the checks run unmodified with
# their absolute paths. Each line of <listfile> is "<patch file> <check id> [<check id> ...]" (patch path as seen from the real tree).
# Prints one line per (patch, check): "<patch> <id> caught" or "<patch> <id> MISSED :: <first output line>". Lanes are removed at the end.
list=$1; n=${2:-4}
root=/tmp/verif-lanes.$$
trap 'rm -rf "$root"' EXIT
i=1
while [ $i -le $n ]; do
  L=$root/$i; mkdir -p $L/tmp $L/patches
  rsync -a --exclude target /repo/ $L/repo/
  rsync -a /verif/ $L/verif/
  awk -v n=$n -v k=$i 'NR % n == k % n' "$list" | while read patch ids; do
    b=$(echo "$patch" | tr '/' '_'); cp "$patch" $L/verif/.lane_$b; echo "/verif/.lane_$b $patch $ids"
  done > $L/verif/.lane_list
  cat > $L/verif/.lane_loop.sh <<'EOF'
cd /verif
while read local orig ids; do
  for id in $ids; do
    out=$(tools/trymut.sh $local $id 2>&1 | head -1 | cut -c1-200)
    case "$out" in *"exit=1 VIOLATION"*) echo "$orig $id caught";; *) echo "$orig $id MISSED :: $out";; esac
  done
done < /verif/.lane_list
EOF
  ( unshare -m sh -c "mount --bind $L/repo /repo && mount --bind $L/verif /verif && mount --bind $L/tmp /tmp && sh /verif/.lane_loop.sh" > $root/$i.out 2>&1 ) &
  i=$((i + 1))
done
wait
cat $root/*.out
