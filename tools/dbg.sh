#!/bin/sh
# usage: tools/dbg.sh theories/Proofs/X.v LINE  -- show goals after LINE (proof state), for interactive proof debugging
f=$1; n=$2
head -n $n $f > /tmp/dbg_$$.v
echo "Show. Abort." >> /tmp/dbg_$$.v
cd /verif/coq && coqc -Q theories QI /tmp/dbg_$$.v 2>&1 | grep -v "^Warning\|deprecated" | head -${3:-60}
rm -f /tmp/dbg_$$.*  /tmp/.dbg_$$.aux
