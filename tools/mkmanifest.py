#!/usr/bin/env python3
"""Regenerates /verif/MANIFEST.json from the table below (kept by hand)."""
import json, os
ROOT = os.path.dirname(os.path.dirname(os.path.abspath(__file__)))
ALL = ["C%02d" % i for i in range(1, 19)]

CHECKS = {
 "C01": dict(
   technique="Coq proof (model of every operator x CPU path = embedded defining matrix, all n/placements/controls/vectors) + differential correspondence model-vs-crate evaluated inside coqc",
   text="Theorems in coq/theories/Props/C01.v, proved for every register size, target, control list and amplitude vector over an abstract commutative ring: each operator's sequential and rayon path (the code's own loops and index arithmetic, Model/Gates.v) returns exactly the vector obtained from the gate's defining matrix embedded on the target inside the all-controls-1 subspace (Spec/Embed.v), same length. The model is tied to operator.rs on every run by executing the real crate (both paths forced by the threshold hook) on an exhaustive small scope and sampled larger registers and comparing, inside Coq with binary64 floats, against model and Spec.",
   note="Trusted: Coq kernel + vm_compute; the hand-written model's tie is differential (exhaustive placements n<=4, sampled to 10-12 qubits); libm cos/sin enter as harness-computed inputs; float rounding is not modelled (1e-12); OpenCL branch is C17.",
   design="6 C01"),
}
CHECKS["C03"] = dict(
   technique="Coq proof, laws-free (rayon path = sequential path for every operator incl. error values; update lists in any order; chunk-size independence; split-tree sums) + impl-vs-impl bitwise comparison under both CPU paths, pool sizes, repeats and concurrent callers, one result tied to the model inside coqc",
   text="Theorems in coq/theories/Props/C03.v. With no assumption on the scalar operations (so for IEEE binary64 as well): every operator's rayon path returns exactly the value of its sequential path for all sizes, arguments (valid or not) and vectors; the sequential write-as-you-go loop equals collect-then-apply for any write function; a duplicate-free update list may be applied in any order; chunked flat_map collection is independent of the chunk size (thread count). Over any monoid: a reduction over any binary split tree equals the left fold. The correspondence runs each real call on both CPU paths x rayon pools 1..16(61) x repeats x concurrent callers and compares all results bit for bit, and one of them with the Coq model.",
   note="Partial: the scheduler's actual interleavings are sampled, not controlled; rayon's order-preserving collect and split-tree reduce are a stated library assumption; float reductions agree to 1e-12 numerically (exact-arithmetic half proved). Families covered so far: gate application (all operators).",
   design="6 C03")
CHECKS["C05"] = dict(
   technique="Coq proof (apply accepted IFF documented validity rules, otherwise Err, never Panic; validate_qubits iff; guards of partial operations) + differential correspondence on boundary-value sweeps with outcome class as verdict",
   text="Theorems in coq/theories/Props/C05.v over the model of validate_qubits and of every operator's apply (both duplicate-detection branches): the call returns Ok iff the arguments satisfy the documented rules (arity, every index < n, no control equal to a target incl. the matchgate's implicit target t+1, no repeated SWAP target, CNOT/Toffoli control count and distinctness), returns Err otherwise and never panics; every index/shift/subtraction of the code sits behind the check that guards it. The correspondence sweeps arity 0..3 and the values {0,1,n-2,n-1,n,n+1,63,64,2^32,usize::MAX} in every role for every operator on 1..5(7) and 10(..12) qubits, under catch_unwind with overflow checks on; verdict = outcome class Ok/Err/Panic against the validity Spec.",
   note="Operator level (Operator::apply for all 20 operator kinds). Entry points above it (State::operate, measure, circuits) are added as their models are built. Error variant/payload is compared with the model but only reported.",
   design="6 C05")
CHECKS["C04"] = dict(
   technique="Coq proof (every operator linear and inner-product preserving given its algebraic facts; circuits by induction on the gate list; inverse-pair table) + metamorphic relations evaluated inside coqc on the real Circuit::execute outputs, plus model correspondence",
   text="Theorems in coq/theories/Props/C04.v over an abstract commutative ring: for gate lists of ANY length whose gates are valid and whose parameters satisfy their algebraic facts (h*h+h*h=1, c*c+s*s=1, U^dagger U = I, |e^{i phi}|=1), run_ops (the fold of Operator::apply that Circuit::execute performs) preserves <a|b> for all vectors a,b, is linear, keeps norm 1; each documented inverse pair (S/Sdag, T/Tdag, P/RX/RY/RZ with negated angle, ry_phase/ry_phase_dag, self-inverse H X Y Z CNOT SWAP Toffoli) with the same controls restores the state. Includes SWAP (basis permutation) and the Matchgate 4x4 block (two-level pairing). The correspondence executes random circuits up to 60 (thorough 400) gates on 1-8(10) qubits through the real crate and evaluates linearity, isometry and round trips in Coq on the implementation's outputs; failing circuits are shrunk.",
   note="Partial for the clause 'deviation bounded by accumulated rounding': the drift is checked numerically against a tolerance scaled with circuit length, not proved (no Flocq error analysis). libm values enter as harness-computed inputs whose algebraic facts are the theorem's hypotheses.",
   design="6 C04")
CHECKS["C08"] = dict(
   technique="Coq proof (PauliString.apply = coefficient x row of the Kronecker product of its Pauli matrices, for every storage order; SumOp = sum of terms, empty = zero; expectation = <psi|H psi>; operator overloads) + differential correspondence evaluated inside coqc, incl. rebuilt insertion orders",
   text="Theorems in coq/theories/Props/C08.v over an abstract commutative ring, for every register size, every string with factors on distinct in-range qubits stored in ANY order (the HashMap is an association list under an arbitrary permutation), every coefficient and amplitude vector: apply returns coefficient * prod_q sigma_q[bit_q k][bit_q(k xor mask)] * psi[k xor mask] (each factor phase proved to be the single non-zero entry of that row of the 2x2 Pauli matrix); the result is independent of the order; an out-of-range factor is an error; SumOp.apply is the term-wise sum (zero vector when empty); expectation_value = inner_product(state, apply(state)); scaling / adding strings and sums commute with application. The correspondence runs every string on 1-3(4) qubits and random ones to 7(10), sums of 0-12(40) terms, all arithmetic overloads (read back and compared with the model's transform) through the real crate, with the model run in the order the real map iterated and the order-free Spec, and each string rebuilt in 4 other insertion orders in fresh maps.",
   note="Not yet proved: 'expectation is real for real coefficients' and hermitian_conjugate adjointness (both are exercised numerically by the correspondence through complex coefficients / hconj read-back). Float rounding not modelled (1e-12).",
   design="6 C08")
CHECKS["C09"] = dict(
   technique="Coq proof (apply_exp = cosh I + sinh P_ops with P_ops an involution; operator power series = scalar even/odd series for every truncation; group law; exp(0)=I; neg_i_dt guard and inner-product preservation) + differential correspondence inside coqc against an in-Coq Taylor-series reference in exact fixed-point arithmetic",
   text="Theorems in coq/theories/Props/C09.v over an abstract commutative ring, all strings (distinct in-range qubits, any storage order), coefficients, states and sizes: apply_exp/apply_exp_factor return psi*cosh(alpha) + (P_ops psi)*sinh(alpha) (empty string: the scalar e^alpha); P_ops is an involution; for EVERY truncation N and coefficient sequence c_j the operator series sum c_j (alpha P)^j psi equals (even part) psi + (odd part) P psi, i.e. the exponential series is the cosh/sinh series component-wise; exp(aP)exp(bP)=exp((a+b)P) from the addition formulas; exp(0P)=I; apply_exp_neg_i_dt refuses any coefficient whose imaginary part is not 0.0 and, for a real one (cosh(-ix)=cos x, sinh(-ix)=-i sin x, c*c+s*s=1), preserves inner products. The correspondence runs the three entry points through the real crate and compares with the model and with a Spec whose cosh/sinh/exp come from a Taylor series evaluated in exact integer fixed-point arithmetic inside Coq (libm-free); the libm values fed to the model are validated against the same series; group law and exp(0)=I are evaluated on the implementation's outputs.",
   note="libm accuracy for |alpha| > 60 (overflow region) is observed, not judged. The limit statement (partial sums converge to Coq's cosh/sinh over R) is not formalised; the component-wise series identity is.",
   design="6 C09")
CHECKS["C10"] = dict(
   technique="Coq proof (k steps = iterated step, additivity, k=0 identity; empty-Hamiltonian / out-of-range errors; inner-product preservation for real coefficients; second-order reversibility for non-commuting terms by telescoping; order-independence of the product for commuting terms with two sufficient conditions) + differential correspondence inside coqc with an in-Coq Taylor reference of exp(-iHt) and numerically evaluated commutator bounds",
   text="Theorems in coq/theories/Props/C10.v over an abstract commutative ring, for Hamiltonians of any length: trotter_evolve with k steps is k successive steps (identity for k=0, additive in k); an empty Hamiltonian is the documented error at all three entry points and a term outside the register makes the sweep fail; with the libm facts of real-coefficient terms (cosh(-ix)=cos x, sinh(-ix)=-i sin x, c*c+s*s=1) every entry point preserves inner products for every k and both orders; the second-order step with -dt undoes the step with +dt for arbitrary (non-commuting) terms; for pairwise commuting terms the product of the term exponentials (each the true exponential by C09) is independent of the term order, and Z-only strings and strings with disjoint supports commute. The correspondence runs steps / evolve / reverse through the real crate, compares with the model, and measures the distance to exp(-iHt)|psi> (Taylor series through the closed-form Hamiltonian action, evaluated in Coq) against 0 for commuting families and against the commutator bounds otherwise.",
   note="PARTIAL. (1) 'equals exp(-iHdt) when all terms commute' is proved as order-independence of the product of true term exponentials, not against a formal matrix exponential of the sum; exactness is additionally checked numerically (1e-9). (2) The rigorous product-formula bounds with constants are evaluated numerically (not formalised); the orders of accuracy are exercised at two step sizes. Float rounding not modelled.",
   design="6 C10")
CHECKS["C11"] = dict(
   technique="Coq proof (each builder's returned term list denotes the documented unpruned periodic Hamiltonian as an operator, for every lattice, parameters and thread count; uniform = site-specific; dimension errors) + differential correspondence inside coqc with an operator-level (merged coefficient map) verdict",
   text="Theorems in coq/theories/Props/C11.v: the chunked parallel construction equals the plain site loop for every thread count (laws-free); over an abstract commutative ring, whenever ising_1d / ising_2d / heisenberg_1d / heisenberg_2d return Ok, the returned SumOp acts on every state vector exactly as the documented Hamiltonian written as an unpruned sum over all sites (site (r,c) on qubit r*M+c, bond to the next site in each direction with wrap-around, coefficients -J, -mu*h, resp. -J/2 and -mu*h/2) - so zero coefficients only omit terms and the 1-D/2-D variants share sign conventions; the uniform variants return the same list as the site-specific ones with constant arrays; a dimension below 2 is the documented error and anything else is accepted. The correspondence builds every shape 1-D n=0..40, 2-D (n,m) in 0..7 squared (const-generic variants through an instantiation table) with zero/negative/tiny/huge parameters under pools of 1..16(32) threads in the real crate and compares, inside Coq, the merged coefficient map with the model's and with the documented Hamiltonian's.",
   note="The zero test `x == 0.0` is assumed to decide x = 0 (hypothesis zero_test_ok; for binary64 this holds up to the sign of zero). Defect found and repaired: heisenberg_1d field sign (fix commit 305b126).",
   design="6 C11")
CHECKS["C12"] = dict(
   technique="Coq proof (Kronecker form of tensor_product for both code paths, associativity, multiplicative norm; inner-product sesquilinearity and Hermitian symmetry; Cauchy-Schwarz, normalise, fidelity and Fubini-Study range / symmetry / self-distance over the reals; constructor vectors) + differential correspondence inside coqc and metric identities on the implementation's outputs",
   text="Theorems in coq/theories/Props/C12.v. Laws-free: entry i of a(x)b is a[i/|b|]*b[i mod |b|] (left operand on the high-order qubits) and the rayon shift/mask path equals the nested loop for all sizes. Ring level: the tensor product is associative and the squared norm multiplicative; inner_product is linear in its second and conjugate-linear in its first argument, Hermitian-symmetric, <a|a> = ||a||^2; |n> has a single unit amplitude; the Hartree-Fock index sets exactly the e high-order bits. Real level: Cauchy-Schwarz; normalise returns v/||v|| of norm 1 or ZeroNorm exactly for the zero vector; fidelity lies in [0,1], is symmetric and 1 on identical states; fs_dist = acos(sqrt F) lies in [0, pi/2], is 0 on identical states and symmetric. The correspondence runs every constructor at every size 0..12(14), State::new, tensor products on both sides of the 64-amplitude threshold, inner/normalise/fidelity and all arithmetic operators through the real crate against the model, and evaluates range / finiteness / symmetry / cos^2 d = F / triangle inequality / ray invariance on the implementation's outputs.",
   note="PARTIAL: the triangle inequality of fs_dist and phase/ray invariance of the fidelity are not proved (checked numerically on 150(800) random triples per run); libm acos/hypot are not modelled; float rounding not modelled. Defect found and repaired: fs_dist(s,s) = NaN / fs_fidelity > 1 by rounding (fix commit 9959af3).",
   design="6 C12")
CHECKS["C02"] = dict(
   technique="Coq proof (inverse-CDF loop = Born intervals, fallback unreachable; probabilities = squared norms of projections and partition ||psi||^2; measuring any nonzero state with any draw succeeds and returns the renormalised projection; outcome-bit order; measure_n shots) + differential correspondence inside coqc with the draw controlled through the hook, boundary search by bisection, collapse / repeat / measure_n checks",
   text="Theorems in coq/theories/Props/C02.v. Ring level: the un-normalised probability of outcome k is the squared norm of the projection P_k psi; the projection keeps the amplitudes of the outcome's subspace and zeroes the rest; bit i of the outcome belongs to qubit indices[i]. Real level, for every register size, qubit list, nonzero state (normalised or not) and draw r in [0,1): the probabilities sum to ||psi||^2; the sampling loop returns k exactly when r lies in the k-th interval of lengths ||P_k psi||^2/||psi||^2 (so each outcome occurs with its Born probability and a zero-probability outcome never occurs, the fallback being unreachable); measure succeeds and returns the bits of k together with P_k psi/||P_k psi||, same width. measure_n is, by the model, the list of measure() results of the same input for its own draws; 0 shots is the documented error. The correspondence drives State::measure with the draw fixed through the hook on every qubit subset/order x four bases x entangled/sparse states for 1-3(4) qubits, locates the outcome-vs-draw step function on the real code by bisection and compares it with the cumulative Born weights, checks the collapsed state against the renormalised projection, repeats the measurement with five draws, and compares measure_n shots as multisets with single measurements.",
   note="PARTIAL: X/Y/custom-basis measurements are modelled as basis change + computational measurement + inverse change (tied by correspondence; the conjugation theorem is not stated separately); 'repeating reproduces the outcome with certainty' is checked numerically (draws kept 1e-9 away from 0 and 1 because of rounding residues); RNG quality and shot scheduling are trusted. Four defects found and repaired (fix commits 1076013 ccbd0ed 1bc3f47 87c36ba); one known finding (squared-norm underflow).",
   design="6 C02")
NOT_YET = {}

def main():
    checks = []
    for pid in ALL:
        if pid not in CHECKS:
            continue
        c = CHECKS[pid]
        checks.append({
            "property_id": pid,
            "quick_cmd": "./check %s --tier quick" % pid,
            "thorough_cmd": "./check %s --tier thorough" % pid,
            "evidence_file": "/verif/evidence/%s.json" % pid,
            "replay_cmd_template": "./check %s --replay {path}" % pid,
            "engine": "coq-model+correspondence",
            "level_claimed": {"category": c.get("category", "proof"), "text": c["text"], "design_ref": "DESIGN.md section " + c["design"]},
            "level_note": c["note"],
            "technique": c["technique"],
        })
    na = [{"property_id": p, "reason": NOT_YET.get(p, "check not built yet in this round; planned (see DESIGN.md section 6) - not claimed until its check exists")}
          for p in ALL if p not in CHECKS]
    man = {
        "version": 1,
        "setup_cmd": "cd /verif && ./setup.sh",
        "hooks": {
            "guard": "cargo feature verif-hooks",
            "enable": "harness crate depends on quant-iron with features=[\"verif-hooks\"] (path /repo); cargo build --release --offline in /verif/harness",
            "baseline_off_cmd": "cd /repo && cargo test --workspace --no-fail-fast --offline",
            "source_commits": json.load(open(os.path.join(ROOT, "tools", "hook_commits.json"))),
            "add_only": True,
        },
        "engines": [{"name": "coq-model+correspondence", "path": "/verif/check", "serves_properties": [c["property_id"] for c in checks],
                     "kind_free_text": "Coq 8.16.1 development (coq/) with model, Spec and theorems; Rust harness (harness/) driving the real crate; Python driver evaluating model+Spec on the same cases inside coqc"}],
        "checks": checks,
        "not_applicable": na,
        "notes": "See DESIGN.md. known_findings.json lists recorded defects; seeded/ holds confirmed breaking changes used to test the checks.",
    }
    json.dump(man, open(os.path.join(ROOT, "MANIFEST.json"), "w"), indent=1)
main()
