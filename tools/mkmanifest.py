#!/usr/bin/env python3
"""Regenerates /verif/MANIFEST.json from the table below (kept by hand)."""
import json, os
ROOT = os.path.dirname(os.path.dirname(os.path.abspath(__file__)))
ALL = ["C%02d" % i for i in range(1, 19)]

CHECKS = {
 "C01": dict(
   technique="Coq proof (model of every operator x CPU path = embedded defining matrix, all n/placements/controls/vectors) + differential correspondence model-vs-crate evaluated inside coqc",
   text="Theorems in coq/theories/Props/C01.v, proved for every register size, target, control list and amplitude vector over an abstract commutative ring: each operator's sequential and rayon path (the code's own loops and index arithmetic, Model/Gates.v) returns exactly the vector obtained from the gate's defining matrix embedded on the target inside the all-controls-1 subspace (Spec/Embed.v), same length. The model is tied to operator.rs on every run by executing the real crate (both paths forced by the threshold hook) on an exhaustive small scope and sampled larger registers and comparing, inside Coq with binary64 floats, against model and Spec.",
   note="Trusted: Coq kernel + vm_compute; the hand-written model's tie is differential (exhaustive placements n<=4, sampled to 10-12 qubits); libm cos/sin enter as harness-computed inputs; float rounding is not modelled (1e-12); OpenCL branch is C17.",
   design="6 C01"),
}
NOT_YET = {}

def main():
    checks = []
    for pid in ALL:
        if pid not in CHECKS:
            continue
        c = CHECKS[pid]
        checks.append({
            "property_id": pid,
            "quick_cmd": "./check %s --tier quick" % pid,
            "thorough_cmd": "./check %s --tier thorough" % pid,
            "evidence_file": "/verif/evidence/%s.json" % pid,
            "replay_cmd_template": "./check %s --replay {path}" % pid,
            "engine": "coq-model+correspondence",
            "level_claimed": {"category": c.get("category", "proof"), "text": c["text"], "design_ref": "DESIGN.md section " + c["design"]},
            "level_note": c["note"],
            "technique": c["technique"],
        })
    na = [{"property_id": p, "reason": NOT_YET.get(p, "check not built yet in this round; planned (see DESIGN.md section 6) - not claimed until its check exists")}
          for p in ALL if p not in CHECKS]
    man = {
        "version": 1,
        "setup_cmd": "cd /verif && ./setup.sh",
        "hooks": {
            "guard": "cargo feature verif-hooks",
            "enable": "harness crate depends on quant-iron with features=[\"verif-hooks\"] (path /repo); cargo build --release --offline in /verif/harness",
            "baseline_off_cmd": "cd /repo && cargo test --workspace --no-fail-fast --offline",
            "source_commits": json.load(open(os.path.join(ROOT, "tools", "hook_commits.json"))),
            "add_only": True,
        },
        "engines": [{"name": "coq-model+correspondence", "path": "/verif/check", "serves_properties": [c["property_id"] for c in checks],
                     "kind_free_text": "Coq 8.16.1 development (coq/) with model, Spec and theorems; Rust harness (harness/) driving the real crate; Python driver evaluating model+Spec on the same cases inside coqc"}],
        "checks": checks,
        "not_applicable": na,
        "notes": "See DESIGN.md. known_findings.json lists recorded defects; seeded/ holds confirmed breaking changes used to test the checks.",
    }
    json.dump(man, open(os.path.join(ROOT, "MANIFEST.json"), "w"), indent=1)
main()
