"""Pauli-string case generation and rendering as Gallina terms (families C08 C09 C10 C11)."""
import itertools, math
from .common import *
from .gatecases import rand_vec

PAULI_IMPORTS = ("From QI Require Import Base.Scalar Model.Outcome Model.Gates Model.StateOps Model.Pauli Proofs.PauliF Proofs.C08 "
                 "Run.FloatInst Run.EvalGates Run.EvalPauli.")

def rand_coef(rng, kind=None):
    kind = kind or rng.choice(["complex", "complex", "real", "imag", "unit", "tiny", "big"])
    if kind == "complex": return [float2bits(rng.uniform(-2, 2)), float2bits(rng.uniform(-2, 2))]
    if kind == "real": return [float2bits(rng.uniform(-2, 2)), float2bits(0.0)]
    if kind == "imag": return [float2bits(0.0), float2bits(rng.uniform(-2, 2))]
    if kind == "unit": return [float2bits(1.0), float2bits(0.0)]
    if kind == "tiny": return [float2bits(rng.uniform(-1, 1) * 1e-9), float2bits(rng.uniform(-1, 1) * 1e-9)]
    return [float2bits(rng.uniform(-50, 50)), float2bits(rng.uniform(-50, 50))]

def rand_string(rng, n, coef_kind=None, maxw=None, allow_empty=True):
    qs = list(range(n))
    w = rng.randrange(0 if allow_empty else 1, min(n, maxw or n) + 1)
    sel = rng.sample(qs, w)
    return {"ops": [[q, rng.choice("XYZ")] for q in sel], "coef": rand_coef(rng, coef_kind)}

def all_strings(n):
    for assign in itertools.product(["", "X", "Y", "Z"], repeat=n):
        yield [[q, p] for q, p in enumerate(assign) if p]

def cq_ops(ops):
    return "[" + ";".join("(%d%%N,P%s)" % (int(q), p) for q, p in ops) + "]"
def cq_ps(t):
    return "(mkPS %s %s)" % (cq_ops(t["ops"]), cqc(*t["coef"]))
def cq_sum(ts):
    return "[" + ";".join(cq_ps(t) for t in ts) + "]"

def cq_pimpl(res):
    if res["r"] == "ok":
        if "z" in res: return "(PICplx %s)" % cqc(*res["z"])
        return "(PIState %s)" % cqvec(res["v"])
    if res["r"] == "err": return "PIErr"
    return "PIPanic"

def with_order(terms, readback):
    """the case's terms with each factor list in the order the implementation's map iterates"""
    out = []
    for t, rb in zip(terms, readback):
        out.append({"ops": rb["ops"], "coef": t["coef"]})
    return out
