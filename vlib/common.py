"""Shared machinery of the checks: building the Coq development and the Rust harness against /repo's
working tree, running cases through the real crate, evaluating the Gallina model/Spec on the same cases
inside coqc (vm_compute), auditing the proofs, writing evidence, reporting violations / known findings."""
import hashlib, json, os, random, re, struct, subprocess, sys, time, shutil
from concurrent.futures import ThreadPoolExecutor

ROOT = os.path.dirname(os.path.dirname(os.path.abspath(__file__)))
COQ = os.path.join(ROOT, "coq")
HARNESS = os.path.join(ROOT, "harness")
BUILD = os.path.join(ROOT, "build")
REPO = "/repo"
NPROC = 16

FORBIDDEN = re.compile(r"\b(Admitted|admit|Axiom|Axioms|Parameter|Parameters|Conjecture|Conjectures|Admit Obligations|"
                       r"Unset Guard Checking|Unset Positivity Checking|Unset Universe Checking|bypass_check|"
                       r"type-in-type|impredicative-set)\b")
# axioms of the standard library that theorems may depend on (named in DESIGN.md section 8)
AXIOM_ALLOW = {
    "ClassicalDedekindReals.sig_forall_dec", "ClassicalDedekindReals.sig_not_dec",
    "FunctionalExtensionality.functional_extensionality_dep", "Classical_Prop.classic",
}

class CheckError(Exception):
    pass

def sh(cmd, cwd=None, timeout=3600, env=None, input=None):
    e = dict(os.environ)
    e.update({"CARGO_NET_OFFLINE": "true"})
    if env:
        e.update(env)
    p = subprocess.run(cmd, cwd=cwd, shell=isinstance(cmd, str), stdout=subprocess.PIPE, stderr=subprocess.STDOUT,
                       timeout=timeout, env=e, input=input, text=True, preexec_fn=_big_stack)
    return p.returncode, p.stdout

def _big_stack():
    """coqc evaluates long string literals (whole exported programs) recursively: give child processes the largest stack allowed"""
    try:
        import resource
        soft, hard = resource.getrlimit(resource.RLIMIT_STACK)
        resource.setrlimit(resource.RLIMIT_STACK, (hard, hard))
    except Exception:
        pass

# ---------------------------------------------------------------- floats
def bits2float(h):
    return struct.unpack(">d", bytes.fromhex(h))[0]
def float2bits(x):
    return struct.pack(">d", float(x)).hex()
def cqf(h):
    """IEEE bit pattern (16 hex digits) -> exact Coq float literal"""
    x = bits2float(h)
    if x != x:
        return "nan"
    if x == float("inf"):
        return "infinity"
    if x == float("-inf"):
        return "neg_infinity"
    s = x.hex()
    if s.startswith("-"):
        return "(-" + s[1:] + ")"
    return "(" + s + ")"
def cqc(re_h, im_h):
    return "(%s,%s)" % (cqf(re_h), cqf(im_h))
def cqvec(flat):
    """flat list of hex re,im,... -> Coq list of complex pairs"""
    return "[" + ";".join(cqc(flat[i], flat[i + 1]) for i in range(0, len(flat), 2)) + "]"
def cqN(n):
    return "%d%%N" % int(n)
def cqNs(l):
    return "[" + ";".join("%d%%N" % int(x) for x in l) + "]"
def cqbool(b):
    return "true" if b else "false"

# ---------------------------------------------------------------- context
class Ctx:
    def __init__(self, prop, tier, seed):
        self.prop, self.tier, self.seed = prop, tier, seed
        self.rng = random.Random(seed * 1000003 + sum(map(ord, prop)))
        self.t0 = time.time()
        self.violations = []      # (what, replay_obj)
        self.known = []           # strings
        self.cov = {}
        self.assumptions = []
        self.proof = {"obligations": 0, "discharged": 0, "theorems": [], "axioms": {}}
        self.broken = []          # names of theorems / correspondences that no longer check
    def thorough(self):
        return self.tier == "thorough"
    def randf(self, lo=-1.0, hi=1.0):
        return float2bits(self.rng.uniform(lo, hi))

# ---------------------------------------------------------------- Coq build + audit
_made = False
def coq_makefile():
    global _made
    if _made:
        return
    rc, out = sh("coq_makefile -f _CoqProject -o Makefile", cwd=COQ, timeout=120)
    if rc != 0:
        raise CheckError("coq_makefile failed:\n" + out)
    _made = True

def coq_make(targets, timeout=3000):
    """make the given .vo targets (paths relative to coq/); returns (ok, log)"""
    coq_makefile()
    rc, out = sh(["timeout", str(timeout), "make", "-j%d" % NPROC] + targets, cwd=COQ, timeout=timeout + 60)
    return rc == 0, out

def prop_theorems(prop):
    """names of the theorems stated in Props/<prop>.v"""
    src = open(os.path.join(COQ, "theories", "Props", prop + ".v")).read()
    return re.findall(r"^Theorem\s+([A-Za-z0-9_']+)", src, flags=re.M)

def grep_forbidden():
    bad = []
    for d, _, fs in os.walk(os.path.join(COQ, "theories")):
        for f in fs:
            if f.endswith(".v"):
                p = os.path.join(d, f)
                txt = open(p).read()
                # strip comments (non-nested is enough for our sources; nested handled by loop)
                prev = None
                while prev != txt:
                    prev = txt
                    txt = re.sub(r"\(\*[^*(]*(?:\*(?!\))[^*(]*|\((?!\*)[^*(]*)*\*\)", " ", txt)
                for m in FORBIDDEN.finditer(txt):
                    bad.append("%s: %s" % (os.path.relpath(p, COQ), m.group(0)))
    return bad

def count_cone(prop):
    """number of Lemma/Theorem/Corollary statements in the files Props/<prop>.v depends on (from .Makefile.d)"""
    deps = set()
    dfile = os.path.join(COQ, ".Makefile.d")
    graph = {}
    if os.path.exists(dfile):
        for line in open(dfile):
            if ":" not in line:
                continue
            lhs, rhs = line.split(":", 1)
            vos = [x for x in lhs.split() if x.endswith(".vo")]
            rs = [x for x in rhs.split() if x.endswith(".vo") and x.startswith("theories/")]
            for v in vos:
                graph.setdefault(v, set()).update(rs)
    todo = ["theories/Props/%s.vo" % prop]
    while todo:
        x = todo.pop()
        if x in deps:
            continue
        deps.add(x)
        todo.extend(graph.get(x, ()))
    n = 0
    files = []
    for vo in sorted(deps):
        v = os.path.join(COQ, vo[:-1])
        if os.path.exists(v):
            files.append(vo[:-1])
            n += len(re.findall(r"^\s*(?:Local\s+|Global\s+)?(?:Lemma|Theorem|Corollary|Fact|Example)\s", open(v).read(), flags=re.M))
    return n, files

def proof_check(ctx, extra_targets=()):
    """Build Props/<prop>.vo and audit it. On failure records ctx.broken and returns False."""
    prop = ctx.prop
    t = time.time()
    # the evaluators used by coq_eval (Run/*.vo) are built together with the property file
    run_targets = ["theories/Run/" + f + "o" for f in sorted(os.listdir(os.path.join(COQ, "theories", "Run"))) if f.endswith(".v")]
    ok, log = coq_make(["theories/Props/%s.vo" % prop] + run_targets + list(extra_targets))
    ctx.cov["coq_build_s"] = round(time.time() - t, 1)
    if not ok:
        m = re.findall(r'File "([^"]+)", line (\d+)', log)
        where = "%s:%s" % m[-1] if m else "?"
        ctx.broken.append("proof build failed at %s" % where)
        ctx.cov["coq_build_log_tail"] = log[-1500:]
        return False
    bad = grep_forbidden()
    if bad:
        ctx.broken.append("forbidden vernacular: " + "; ".join(bad[:5]))
        return False
    thms = prop_theorems(prop)
    os.makedirs(os.path.join(BUILD, "audit"), exist_ok=True)
    af = os.path.join(BUILD, "audit", "Audit_%s.v" % prop)
    with open(af, "w") as f:
        f.write("From QI Require Import Props.%s.\n" % prop)
        for th in thms:
            f.write('Goal True. idtac "@@THM %s". exact I. Qed.\nPrint Assumptions %s.\n' % (th, th))
    rc, out = sh(["timeout", "600", "coqc", "-noglob", "-Q", os.path.join(COQ, "theories"), "QI", af], cwd=os.path.dirname(af))
    if rc != 0:
        ctx.broken.append("assumption audit failed to compile")
        ctx.cov["audit_log_tail"] = out[-1500:]
        return False
    axioms = {}
    cur = None
    for line in out.splitlines():
        if line.startswith("@@THM "):
            cur = line[6:].strip(); axioms[cur] = []
        elif cur is not None:
            m = re.match(r"^([A-Za-z_][A-Za-z0-9_.']*)\s*:", line)
            if m and m.group(1) != "Axioms":
                axioms[cur].append(m.group(1))
    notallowed = []
    for th, axs in axioms.items():
        for a in axs:
            if a not in AXIOM_ALLOW and not a.startswith("PrimFloat.") and not a.startswith("Uint63.") \
               and not a.startswith("FloatAxioms.") and not a.startswith("Uint63Axioms.") and not a.startswith("FloatOps."):
                notallowed.append("%s uses %s" % (th, a))
    if notallowed:
        ctx.broken.append("axioms outside the allow-list: " + "; ".join(notallowed[:5]))
        return False
    n, files = count_cone(prop)
    ctx.proof["obligations"] = n
    ctx.proof["discharged"] = n
    ctx.proof["theorems"] = thms
    ctx.proof["axioms"] = {k: v for k, v in axioms.items()}
    ctx.proof["cone_files"] = files
    return True

def coqchk(ctx):
    rc, out = sh(["timeout", "1500", "coqchk", "-o", "-silent", "-Q", os.path.join(COQ, "theories"), "QI", "QI.Props.%s" % ctx.prop], cwd=COQ, timeout=1600)
    ctx.cov["coqchk"] = "ok" if rc == 0 else "FAILED"
    ctx.cov["coqchk_tail"] = out[-800:]
    if rc != 0:
        ctx.broken.append("coqchk rejected Props/%s.vo" % ctx.prop)
    return rc == 0

# ---------------------------------------------------------------- harness
_hbuilt = False
def build_harness():
    global _hbuilt
    if _hbuilt:
        return
    lock = os.path.join(HARNESS, "Cargo.lock")
    if not os.path.exists(lock):
        shutil.copy(os.path.join(REPO, "Cargo.lock"), lock)
    rc, out = sh("cargo build --release --offline 2>&1", cwd=HARNESS, timeout=1800)
    if rc != 0:
        raise CheckError("harness build failed (does /repo still compile with --features verif-hooks?):\n" + out[-3000:])
    _hbuilt = True

def run_harness(cases, timeout=1800, env=None, nproc=1):
    """run cases (list of dicts) through the real crate; returns list of result dicts in order.
    nproc>1 splits the cases over several harness processes (only for cases that do not use global hooks
    differently... each process has its own hooks, so this is always safe)."""
    build_harness()
    exe = os.path.join(HARNESS, "target", "release", "qi-harness")
    if not cases:
        return []
    def run_chunk(chunk):
        inp = "\n".join(json.dumps(c) for c in chunk) + "\n"
        e = dict(os.environ)
        if env:
            e.update(env)
        p = subprocess.run([exe], input=inp, stdout=subprocess.PIPE, stderr=subprocess.PIPE, text=True, timeout=timeout, env=e)
        lines = [l for l in p.stdout.splitlines() if l.strip()]
        if p.returncode != 0 or len(lines) != len(chunk):
            # the process died (abort / stack overflow): report per case by re-running one by one
            res = []
            for c in chunk:
                q = subprocess.run([exe], input=json.dumps(c) + "\n", stdout=subprocess.PIPE, stderr=subprocess.PIPE, text=True, timeout=timeout, env=e)
                ls = [l for l in q.stdout.splitlines() if l.strip()]
                if q.returncode == 0 and len(ls) == 1:
                    res.append(json.loads(ls[0]))
                else:
                    res.append({"r": "crash", "rc": q.returncode, "stderr": q.stderr[-300:]})
            return res
        return [json.loads(l) for l in lines]
    if nproc <= 1 or len(cases) < 4 * nproc:
        return run_chunk(cases)
    k = (len(cases) + nproc - 1) // nproc
    chunks = [cases[i:i + k] for i in range(0, len(cases), k)]
    with ThreadPoolExecutor(max_workers=nproc) as ex:
        parts = list(ex.map(run_chunk, chunks))
    return [r for p in parts for r in p]

# ---------------------------------------------------------------- model evaluation inside Coq
def coq_eval(ctx, imports, terms, tag="cases", shards=NPROC, timeout=1500, preamble=""):
    """Evaluate each Gallina term with vm_compute inside coqc; returns the printed values (strings) in order.
    Every term is printed between markers so that wrapped output is reassembled reliably."""
    if not terms:
        return []
    d = os.path.join(BUILD, "cases", ctx.prop)
    os.makedirs(d, exist_ok=True)
    shards = max(1, min(shards, (len(terms) + 19) // 20))
    idx = [list(range(s, len(terms), shards)) for s in range(shards)]
    def run(s):
        fn = os.path.join(d, "%s_%s_%d.v" % (tag, ctx.tier, s))
        with open(fn, "w") as f:
            f.write("From Coq Require Import Floats List NArith ZArith Bool String.\nImport ListNotations.\n")
            f.write(imports + "\nOpen Scope N_scope.\nOpen Scope float_scope.\n" + preamble + "\n")
            for i in idx[s]:
                f.write('Goal True. idtac "@@CASE %d". exact I. Qed.\nEval vm_compute in (%s).\n' % (i, terms[i]))
        rc, out = sh(["timeout", str(timeout), "coqc", "-noglob", "-Q", os.path.join(COQ, "theories"), "QI", fn], cwd=d, timeout=timeout + 30)
        return rc, out
    with ThreadPoolExecutor(max_workers=shards) as ex:
        outs = list(ex.map(run, range(shards)))
    res = [None] * len(terms)
    for s, (rc, out) in enumerate(outs):
        cur, buf = None, []
        def flush():
            if cur is not None:
                txt = " ".join(buf)
                m = re.match(r"^\s*=\s*(.*?)\s*:\s*[^:]*$", txt, flags=re.S)
                res[cur] = m.group(1).strip() if m else ("?" + txt)
        for line in out.splitlines():
            if line.startswith("@@CASE "):
                flush(); cur = int(line[7:]); buf = []
            elif cur is not None:
                buf.append(line.strip())
        flush()
        if rc != 0:
            missing = [i for i in idx[s] if res[i] is None]
            raise CheckError("coqc failed while evaluating cases (shard %d, first unevaluated case %s):\n%s"
                             % (s, missing[:1], out[-2000:]))
    return res

def parseN(s):
    m = re.match(r"^\(?(\d+)(?:%N)?\)?$", s.strip())
    if not m:
        raise CheckError("unexpected Coq output: %r" % s)
    return int(m.group(1))

# ---------------------------------------------------------------- known findings, replay, evidence
def load_known():
    p = os.path.join(ROOT, "known_findings.json")
    if not os.path.exists(p):
        return []
    return json.load(open(p)).get("findings", [])

def write_replay(ctx, what, obj):
    os.makedirs(os.path.join(ROOT, "replays"), exist_ok=True)
    body = {"property": ctx.prop, "what": what, "seed": ctx.seed, "tier": ctx.tier, "replay": obj}
    h = hashlib.sha1(json.dumps(body, sort_keys=True).encode()).hexdigest()[:10]
    p = os.path.join(ROOT, "replays", "%s-%s.json" % (ctx.prop, h))
    json.dump(body, open(p, "w"), indent=1)
    return p

def finish(ctx, level="proof", checker_cmd=None, trusted=None, samples=None, rule="", evaluations=0, nontrivial=0, extra=None):
    """decide exit status, print VIOLATION / KNOWN-FINDING lines, write the evidence file"""
    lines = []
    exit_code = 0
    for k in ctx.known:
        print("KNOWN-FINDING: property=%s %s" % (ctx.prop, k))
    if ctx.violations:
        what, obj = ctx.violations[0]
        if ctx.broken:
            obj = dict(obj); obj["also_broken"] = ctx.broken
        p = write_replay(ctx, what, obj)
        print("VIOLATION property=%s replay=%s" % (ctx.prop, p))
        print("  " + what)
        exit_code = 1
    elif ctx.broken:
        p = write_replay(ctx, "no failing input found; these no longer check: " + "; ".join(ctx.broken),
                         {"no_longer_checks": ctx.broken, "detail": {k: v for k, v in ctx.cov.items() if k.endswith("_tail")}})
        print("VIOLATION property=%s replay=%s no-failing-input-found" % (ctx.prop, p))
        exit_code = 1
    cov = dict(ctx.cov)
    cov.update({
        "obligations": ctx.proof["obligations"], "discharged": ctx.proof["discharged"] if not ctx.broken else 0,
        "checker_cmd": checker_cmd or ("make -C coq theories/Props/%s.vo (coqc 8.16.1, full .vo) + Print Assumptions audit" % ctx.prop),
        "trusted_base": trusted or [],
        "theorems": ctx.proof["theorems"], "axioms_per_theorem": ctx.proof["axioms"],
        "evaluations": evaluations, "distinct_nontrivial": nontrivial, "rule": rule,
        "samples": samples or [],
        "known_findings_seen": ctx.known, "no_longer_checks": ctx.broken,
    })
    if extra:
        cov.update(extra)
    ev = {"property_id": ctx.prop, "tier": ctx.tier, "seed": ctx.seed, "level": level, "coverage": cov,
          "assumptions": ctx.assumptions, "wall_s": round(time.time() - ctx.t0, 1), "violations": len(ctx.violations) + (1 if (ctx.broken and not ctx.violations) else 0)}
    evdir = os.environ.get("VERIF_EVIDENCE_DIR") or os.path.join(ROOT, "evidence")   # (mutant trials write elsewhere)
    os.makedirs(evdir, exist_ok=True)
    json.dump(ev, open(os.path.join(evdir, ctx.prop + ".json"), "w"), indent=1)
    return exit_code
