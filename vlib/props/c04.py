"""C04: gate sequences are linear isometries; documented inverse pairs cancel."""
from ..common import *
from ..gatecases import *
import math

TRUSTED = [
    "Coq 8.16.1 kernel; vm_compute only to RUN the model and the metamorphic relations on the cases",
    "hand-written model (Model/Gates.v, Model/OpSeq.v) tied to operator.rs / Circuit::execute by this correspondence run",
    "theorem hypotheses (c*c+s*s=1, h*h+h*h=1, |e^{i phi}|=1) are algebraic facts of the libm values; accumulated rounding is measured (tolerance scaled with length), not proved",
    "harness crate /verif/harness; libm cos/sin values are inputs computed by the harness",
]
IMPORTS = GATE_IMPORTS + "\nFrom QI Require Import Model.OpSeq Run.EvalOps."

INV = {"H": "H", "X": "X", "Y": "Y", "Z": "Z", "I": "I", "S": "Sdag", "Sdag": "S", "T": "Tdag", "Tdag": "T",
       "CNOT": "CNOT", "SWAP": "SWAP", "Toffoli": "Toffoli", "P": "P", "RX": "RX", "RY": "RY", "RZ": "RZ", "RYP": "RYPdag", "RYPdag": "RYP"}

def rand_gate(rng, n, kinds=KINDS):
    while True:
        kind = rng.choice(kinds)
        qs = list(range(n)); rng.shuffle(qs)
        if kind == "SWAP":
            if n < 2: continue
            ts, rest = qs[:2], qs[2:]
        elif kind == "Match":
            if n < 2: continue
            t = rng.randrange(n - 1); ts = [t]; rest = [q for q in range(n) if q not in (t, t + 1)]
        else:
            ts, rest = qs[:1], qs[1:]
        if kind == "CNOT":
            if len(rest) < 1: continue
            k = 1
        elif kind == "Toffoli":
            if len(rest) < 2: continue
            k = 2
        else:
            k = rng.choice([0, 0, 1, 1, 2, 3]); k = min(k, len(rest))
        return {"kind": kind, "params": rand_params(rng, kind, special=(rng.random() < 0.05)), "ts": ts, "cs": rng.sample(rest, k)}

def inverse_gate(g):
    k2 = INV[g["kind"]]
    p = list(g["params"])
    if g["kind"] in ("P", "RX", "RY", "RZ"):
        p = [float2bits(-bits2float(p[0]))]
    return {"kind": k2, "params": p, "ts": g["ts"], "cs": g["cs"]}

def gen_cases(ctx):
    rng = ctx.rng
    cases = []
    plan = [(1, 12, 30), (2, 20, 40), (3, 25, 60), (4, 25, 60), (5, 16, 60), (6, 10, 40), (7, 4, 30), (8, 3, 20)] if not ctx.thorough() else \
           [(1, 30, 100), (2, 60, 200), (3, 80, 400), (4, 80, 400), (5, 60, 300), (6, 40, 200), (7, 20, 100), (8, 10, 60), (10, 3, 12)]
    for n, cnt, maxlen in plan:
        for i in range(cnt):
            L = rng.choice([1, 2, 3, 5, 8, 13, 21, 34, maxlen, rng.randrange(1, maxlen + 1)])
            L = min(L, maxlen)
            rt = (i % 3 == 0)
            if rt:
                invk = [k for k in KINDS if k in INV and k != "U2"]
                gs = [rand_gate(rng, n, invk) for _ in range(max(1, L // 2))]
                gates = gs + [inverse_gate(g) for g in reversed(gs)]
            else:
                gates = [rand_gate(rng, n) for _ in range(L)]
            style = rng.choice(["generic", "normalised"])
            cases.append({"op": "opseq", "n": n, "gates": gates, "a": rand_vec(rng, n, style), "b": rand_vec(rng, n, "generic"),
                          "x": [ctx.randf(-2, 2), ctx.randf(-2, 2)], "y": [ctx.randf(-2, 2), ctx.randf(-2, 2)],
                          "thr": rng.choice([10, 1]), "rt": rt})
    # whatever Unitary2::new ACCEPTS must act as an isometry: candidates with unit-norm but non-orthogonal rows, orthogonal but
    # non-unit rows, and slightly perturbed unitaries (rejected candidates are skipped: ctor_err)
    import cmath
    h = 1 / math.sqrt(2)
    cands = [[h, 0, h, 0, 0, h, 0, h], [1, 0, 0, 0, h, 0, 0, h], [0.6, 0, 0.8, 0, 0.8, 0, 0.6, 0], [1, 0, 0, 0, 0, 0, 2, 0], [0.5, 0, 0, 0, 0, 0, 1, 0]]
    for _ in range(40):
        t1, t2 = rng.uniform(0, 3.1), rng.uniform(0, 3.1)
        p = [cmath.exp(1j * rng.uniform(-3.1, 3.1)) for _ in range(4)]
        r1 = (p[0] * math.cos(t1), p[1] * math.sin(t1)); r2 = (p[2] * math.cos(t2), p[3] * math.sin(t2))      # unit rows, generally not orthogonal
        cands.append([r1[0].real, r1[0].imag, r1[1].real, r1[1].imag, r2[0].real, r2[0].imag, r2[1].real, r2[1].imag])
        # a true unitary with complex entries, and the same with its second row conjugated entry-wise (orthogonal only under a wrong formula)
        a, b = p[0] * math.cos(t1), p[1] * math.sin(t1)
        e = p[2]
        c, d = -e * b.conjugate(), e * a.conjugate()
        cands.append([a.real, a.imag, b.real, b.imag, c.real, c.imag, d.conjugate().real, d.conjugate().imag])
    for m in cands:
        for n in (1, 2):
            g = {"kind": "U2", "params": [float2bits(float(x)) for x in m], "ts": [rng.randrange(n)], "cs": []}
            cases.append({"op": "opseq", "n": n, "gates": [g], "a": rand_vec(rng, n, "normalised"), "b": rand_vec(rng, n, "generic"),
                          "x": [ctx.randf(), ctx.randf()], "y": [ctx.randf(), ctx.randf()], "thr": rng.choice([10, 1]), "rt": False})
    # each inverse pair on its own, with controls, on 3 qubits (the documented table)
    for kind in INV:
        for _ in range(3):
            g = rand_gate(rng, 3, [kind])
            cases.append({"op": "opseq", "n": 3, "gates": [g, inverse_gate(g)], "a": rand_vec(rng, 3, "generic"), "b": rand_vec(rng, 3, "generic"),
                          "x": [ctx.randf(), ctx.randf()], "y": [ctx.randf(), ctx.randf()], "thr": rng.choice([10, 1]), "rt": True})
    # linearity does not depend on magnitudes: combinations with a 1e-9 / 1e-12 scalar, inputs whose amplitudes are all (or partly) of
    # order 1e-9 - a gate may not treat a small pair as "empty"
    for kind in KINDS:
        if kind == "U2": continue
        for n in (2, 3):
            pl = [p for p in placements(n, kind)]
            for grp in ([p for p in pl if not p[1]], [p for p in pl if p[1]]):
                if not grp: continue
                ts, cs = rng.choice(grp)
                g = {"kind": kind, "params": rand_params(rng, kind), "ts": list(ts), "cs": list(cs)}
                for style, x in (("tiny", [float2bits(1.0), float2bits(0.0)]), ("generic", [float2bits(1e-9), float2bits(-2e-9)]), ("mixed", [float2bits(0.0), float2bits(1e-12)]),
                                 ("spike", [float2bits(0.3), float2bits(-1.7)]), ("spike", [float2bits(1.0), float2bits(0.0)])):      # a basis state carrying a phase and a scale
                    cases.append({"op": "opseq", "n": n, "gates": [g], "a": rand_vec(rng, n, style), "b": rand_vec(rng, n, "generic"),
                                  "x": x, "y": [float2bits(0.0), float2bits(0.0)], "thr": rng.choice([10, 1]), "rt": False})
    # ... and at the parameter values where a gate degenerates into a simpler one (theta = 0: a pure phase; phi = 0: a plain rotation;
    # half and full turns): the documented inverse must still undo it
    for kind in ("RYP", "RYPdag"):
        for th in (0.0, -0.0, math.pi, 2 * math.pi, 0.83):
            for ph in (0.0, math.pi, -math.pi / 2, 1.37):
                if th == 0.83 and ph == 1.37: continue
                for cs in ([], [2]):
                    g = {"kind": kind, "params": [float2bits(th), float2bits(ph)], "ts": [rng.choice([0, 1])], "cs": cs}
                    cases.append({"op": "opseq", "n": 3, "gates": [g, inverse_gate(g)], "a": rand_vec(rng, 3, "generic"), "b": rand_vec(rng, 3, "generic"),
                                  "x": [ctx.randf(), ctx.randf()], "y": [ctx.randf(), ctx.randf()], "thr": rng.choice([10, 1]), "rt": True})
    for kind in ("P", "RX", "RY", "RZ"):
        for ang in (math.pi / 2, -math.pi / 2, math.pi, -math.pi, math.pi / 4, 2 * math.pi, 0.0):
            g = {"kind": kind, "params": [float2bits(ang)], "ts": [1], "cs": rng.choice([[], [0], [2, 0]])}
            cases.append({"op": "opseq", "n": 3, "gates": [g, inverse_gate(g)], "a": rand_vec(rng, 3, "generic"), "b": rand_vec(rng, 3, "generic"),
                          "x": [ctx.randf(), ctx.randf()], "y": [ctx.randf(), ctx.randf()], "thr": rng.choice([10, 1]), "rt": True})
    return cases

def coq_term(case, res):
    gs = []
    for g, orc in zip(case["gates"], res["oracles"]):
        op, _ = coq_op(g["kind"], orc)
        gs.append("(%s, %s, %s)" % (op, cqNs(g["ts"]), cqNs(g["cs"])))
    scale = max(1.0, len(case["gates"]) / 25.0)
    return "check_opseq_case %s [%s] %s %s %s %s %s %s %s %s %s %s" % (
        cqbool(case["n"] >= case["thr"]), ";".join(gs), cqN(case["n"]), cqvec(case["a"]), cqvec(case["b"]),
        cqc(*case["x"]), cqc(*case["y"]), cqvec(res["ga"]), cqvec(res["gb"]), cqvec(res["gl"]), cqbool(case["rt"]), cqf(float2bits(scale)))

def brief(case):
    return {"n": case["n"], "len": len(case["gates"]), "roundtrip": case["rt"], "path": "par" if case["n"] >= case["thr"] else "seq",
            "gates": [[g["kind"], g["ts"], g["cs"]] for g in case["gates"][:12]]}

def shrink(ctx, case, bad_bit):
    """shorten a failing circuit: drop gates while the failure (same verdict bit) persists"""
    cur = case
    changed = True
    rounds = 0
    while changed and rounds < 6 and len(cur["gates"]) > 1:
        changed = False; rounds += 1
        L = len(cur["gates"])
        cands = []
        if cur["rt"]:
            h = L // 2
            for i in range(h):
                gs = cur["gates"][:h]; gs = gs[:i] + gs[i + 1:]
                if gs: cands.append(dict(cur, gates=gs + [inverse_gate(g) for g in reversed(gs)]))
        else:
            cands.append(dict(cur, gates=cur["gates"][:L // 2])); cands.append(dict(cur, gates=cur["gates"][L // 2:]))
            for i in range(min(L, 12)):
                cands.append(dict(cur, gates=cur["gates"][:i] + cur["gates"][i + 1:]))
        res = run_harness(cands)
        ok = [(c, r) for c, r in zip(cands, res) if r["r"] == "ok"]
        outs = coq_eval(ctx, IMPORTS, [coq_term(c, r) for c, r in ok], tag="shrink")
        for (c, r), o in zip(ok, outs):
            if not (parseN(o) & bad_bit):
                cur = c; changed = True
                break
    return cur

def run(ctx):
    proof_ok = proof_check(ctx)
    if ctx.thorough() and proof_ok:
        coqchk(ctx)
    cases = gen_cases(ctx)
    results = run_harness(cases, nproc=8)
    terms, idx = [], []
    for i, (c, r) in enumerate(zip(cases, results)):
        if r["r"] == "ok":
            terms.append(coq_term(c, r)); idx.append(i)
        elif r["r"] != "ctor_err":
            ctx.violations.append(("a valid gate sequence was not executed: %s" % r.get("e", r.get("msg")), {"case": c, "brief": brief(c)}))
    outs = coq_eval(ctx, IMPORTS, terms)
    stats = {"model_agrees": 0, "linear": 0, "isometric": 0, "model_lin_agrees": 0, "roundtrip_ok": 0, "cases": len(cases)}
    names = {2: "linearity G(xa+yb) = xGa+yGb fails on the implementation's outputs", 4: "inner product <Ga|Gb> differs from <a|b>",
             16: "gate followed by its documented inverse does not restore the state"}
    for i, o in zip(idx, outs):
        code = parseN(o)
        for bit, nm in ((1, "model_agrees"), (2, "linear"), (4, "isometric"), (8, "model_lin_agrees"), (16, "roundtrip_ok")):
            if code & bit: stats[nm] += 1
        bad = [b for b in (2, 4, 16) if not (code & b)]
        if bad and not ctx.violations:
            small = shrink(ctx, cases[i], bad[0])
            ctx.violations.append((names[bad[0]], {"case": small, "brief": brief(small), "verdict_bits": code, "original_len": len(cases[i]["gates"])}))
        elif bad:
            ctx.violations.append((names[bad[0]], {"case": cases[i], "brief": brief(cases[i]), "verdict_bits": code}))
        elif not (code & 1) or not (code & 8):
            ctx.broken.append("correspondence model-vs-impl differs (metamorphic relations still hold) on %s" % json.dumps(brief(cases[i])))
    ctx.broken = ctx.broken[:5]
    lens = {}
    for c in cases:
        k = "n%d" % c["n"]; lens.setdefault(k, []).append(len(c["gates"]))
    kinds = {}
    for c in cases:
        for g in c["gates"]:
            kinds[g["kind"]] = kinds.get(g["kind"], 0) + 1
    return finish(ctx, trusted=TRUSTED, evaluations=len(cases), nontrivial=len(idx),
                  rule="random operator circuits (all 20 kinds, 0-3 controls, random placements) of length 1..%d on 1..%d qubits via the real Circuit::execute, "
                       "on two random states a,b (un-normalised too) and on x*a+y*b; one third are gate+inverse round trips; plus each documented inverse pair; "
                       "relations evaluated in Coq on the implementation's outputs; failing circuits are shrunk" % (max(len(c["gates"]) for c in cases), max(c["n"] for c in cases)),
                  samples=[brief(c) for c in cases[:2]],
                  extra={"verdict_counts": stats, "length_range_by_n": {k: [min(v), max(v)] for k, v in lens.items()}, "gate_kind_counts": kinds,
                         "roundtrip_cases": sum(1 for c in cases if c["rt"])})

def replay(ctx, path):
    body = json.load(open(path))
    case = body["replay"].get("case")
    if not case:
        print("replay file carries no concrete case:", body["what"]); return 1
    r = run_harness([case])[0]
    if r["r"] != "ok":
        print(json.dumps({"brief": brief(case), "impl": r})); return 1
    code = parseN(coq_eval(ctx, IMPORTS, [coq_term(case, r)])[0])
    print(json.dumps({"brief": brief(case), "verdict_bits": code}, indent=1))
    return 0 if (code & 2 and code & 4 and code & 16) else 1
