"""C06: circuit execution is in-order composition of its gates, for every build history."""
from ..common import *
from ..gatecases import *
from ..paulicases import rand_string, cq_ps
from .c04 import rand_gate
from .c02 import cq_basis, exact_unitaries

TRUSTED = [
    "Coq 8.16.1 kernel; vm_compute to RUN the circuit / builder model on the cases",
    "theorems are generic in the gate type; the hypothesis 'every gate keeps the register width' is discharged for operator gates by C01_shape and checked on every executed case for the other variants",
    "measurement gates consume draws from the hook queue in execution order (one per gate); parametric gates are covered by C15",
    "hand-written model Model/Circuit.v + Model/GateEnum.v tied to circuit.rs / gate.rs / subroutine.rs by this correspondence run",
]
IMPORTS = ("From QI Require Import Base.Scalar Model.Outcome Model.Gates Model.StateOps Model.StateCtor Model.Measure Model.Pauli Model.Circuit Model.GateEnum "
           "Run.FloatInst Run.EvalGates Run.EvalState Run.EvalMeasure Run.EvalCircuit.")

def rand_any_gate(rng, n, us, bad=False):
    r = rng.random()
    if r < 0.62:
        g = rand_gate(rng, n); d = dict(g, g="op")
        if bad:
            role = rng.choice(["ts", "cs"]) if d["cs"] else "ts"
            d[role] = list(d[role]); d[role][rng.randrange(len(d[role]))] = n + rng.randrange(0, 3) if (rng.random() < 0.8 or d.get("kind") == "Match") else 2**64 - 1   # the largest index there is
        return d
    if r < 0.76:
        qs = rng.sample(range(n), rng.randrange(0, n + 1))
        if bad: qs = (qs or [0]); qs[0] = n + rng.randrange(0, 2)
        b = rng.choice(["C", "X", "Y", "U"])
        d = {"g": "meas", "basis": b, "qs": qs}
        if b == "U": d["u"] = rng.choice(us)
        return d
    t = rand_string(rng, n, allow_empty=(rng.random() < 0.15))
    if bad and t["ops"]: t["ops"][0][0] = n + rng.randrange(0, 3)
    if r < 0.88:
        return {"g": "pauli", "term": t}
    t["coef"] = [float2bits(rng.uniform(-2, 2)), float2bits(0.0 if rng.random() < 0.85 else rng.uniform(-1, 1))]
    return {"g": "evo", "term": t, "dt": float2bits(rng.uniform(-1.5, 1.5))}

def targets_of(d):
    if d["g"] in ("op", "param"): return list(d["ts"]), list(d["cs"])
    if d["g"] == "meas": return list(d["qs"]), []
    return sorted(q for q, _ in d["term"]["ops"]), []

def gen_cases(ctx):
    rng = ctx.rng
    us = exact_unitaries(rng)
    cases = []
    plan = [(1, 8, 8), (2, 16, 14), (3, 22, 20), (4, 18, 24), (5, 10, 24), (6, 4, 16)] if not ctx.thorough() else [(1, 30, 20), (2, 60, 40), (3, 80, 60), (4, 60, 60), (5, 40, 60), (6, 20, 40), (7, 8, 30)]
    for n, cnt, maxlen in plan:
        for i in range(cnt):
            L = rng.choice([0, 1, 2, 3, 5, 8, maxlen, rng.randrange(0, maxlen + 1)])
            bad_at = rng.randrange(L) if (L and i % 6 == 5) else None
            gates = [rand_any_gate(rng, n, us, bad=(k == bad_at)) for k in range(L)]
            nmeas = sum(1 for g in gates if g["g"] == "meas")
            cn = n if i % 9 != 8 else n + rng.choice([-1, 1])       # width mismatch between circuit and state
            if cn < 1: cn = n + 1
            cases.append({"op": "circuit", "mode": "exec", "n": n, "cn": cn, "v": rand_vec(rng, n, "normalised" if i % 4 else "dominant"), "gates": gates,
                          "draws": [float2bits(rng.choice([0.03, 0.2, 0.41, 0.5, 0.66, 0.83, 0.97])) for _ in range(nmeas)],
                          "split": rng.randrange(0, L + 1), "thr": rng.choice([10, 1])})
    # neighbouring gates of one kind on the same set of qubits, identical and with the roles of the qubits exchanged (cnot(0->1) then
    # cnot(1->0) is not a cancelling pair): execution is the in-order product, nothing is fused or dropped
    for kind in ("CNOT", "Toffoli", "H", "X", "Y", "Z", "SWAP", "S", "T", "P", "RX"):
        for n in (3, 4):
            for _ in range(2):
                g = dict(rand_gate(rng, n, [kind]), g="op")
                if kind not in ("CNOT", "Toffoli") and not g["cs"]:
                    g["cs"] = [rng.choice([q for q in range(n) if q not in g["ts"]])]
                qs = list(g["ts"]) + list(g["cs"])
                perm = qs[1:] + qs[:1] if rng.random() < 0.5 else qs[::-1]
                g2 = dict(g, ts=perm[:len(g["ts"])], cs=perm[len(g["ts"]):])
                for pair in ([g, g2], [g, dict(g)], [g2, g, g2]):
                    gates = [rand_any_gate(rng, n, us) for _ in range(rng.randrange(0, 2))] + pair + [rand_any_gate(rng, n, us) for _ in range(rng.randrange(0, 2))]
                    gates = [x for x in gates if x["g"] != "meas"]
                    cases.append({"op": "circuit", "mode": "exec", "n": n, "cn": n, "v": rand_vec(rng, n, "normalised"), "gates": gates, "draws": [],
                                  "split": rng.randrange(0, len(gates) + 1), "thr": rng.choice([10, 1])})
    # a state wider / narrower than the circuit (also for a circuit without gates, and with every gate inside the narrower of the two):
    # execute and trace_execution both refuse it
    for n in (2, 3, 4):
        for cn in (n - 1, n + 1):
            w = min(n, cn)
            for L in (0, 1, 3):
                gates = [rand_any_gate(rng, w, us) for _ in range(L)]
                nmeas = sum(1 for g in gates if g["g"] == "meas")
                cases.append({"op": "circuit", "mode": "exec", "n": n, "cn": cn, "v": rand_vec(rng, n, "normalised"), "gates": gates,
                              "draws": [float2bits(0.4)] * nmeas, "split": 0, "thr": 10})
    # builder histories with every kind of draining step between a successful build and a later out-of-range gate: every build validates
    # every gate it is about to hand out
    for n in (2, 3):
        good = [rand_any_gate(rng, n, us) for _ in range(3)]
        bad = rand_any_gate(rng, n, us, bad=True)
        while not any(q >= n for q in sum(targets_of(bad), [])): bad = rand_any_gate(rng, n, us, bad=True)
        pool = good + [bad]
        for drain in ("build_sub", "build_final", "build", None):
            for nbad in (1, 2):
                ops = [{"o": "add_gate", "i": 0}, {"o": "add_gate", "i": 1}, {"o": "add_gate", "i": 2}, {"o": "build"}]
                if drain: ops.append({"o": drain})
                ops += [{"o": "add_gate", "i": 3}] + [{"o": "add_gate", "i": 0}] * (nbad - 1) + [{"o": "build"}, {"o": "build_sub"}, {"o": "add_gate", "i": 3}, {"o": "build"}, {"o": "build_final"}]
                cases.append({"op": "circuit", "mode": "history", "n": n, "pool": pool, "ops": ops})
    # builder histories
    for _ in range(120 if not ctx.thorough() else 600):
        n = rng.randrange(1, 6)
        pool = [rand_any_gate(rng, n, us, bad=(rng.random() < 0.1)) for _ in range(rng.randrange(3, 10))]
        # measurement gates whose qubit lists are descending / contain a repeat: a builder keeps the list as given
        pool.append({"g": "meas", "basis": rng.choice(["C", "X", "Y"]), "qs": sorted(rng.sample(range(n), rng.randrange(1, n + 1)), reverse=True)})
        pool.append({"g": "meas", "basis": rng.choice(["C", "X", "Y"]), "qs": [0, 0] + rng.sample(range(n), rng.randrange(0, n))})
        meas_ids = [i for i, g in enumerate(pool) if g["g"] == "meas" and g["basis"] != "U"]
        ops = []
        for _ in range(rng.randrange(1, 25 if not ctx.thorough() else 80)):
            k = rng.choice(["add_gate", "add_gate", "add_gate", "add_gates", "add_sub", "build", "build", "build_final", "build_sub", "try_from", "measure_gate"])
            if k == "measure_gate": ops.append({"o": k, "i": rng.choice(meas_ids)})
            elif k == "add_gate": ops.append({"o": k, "i": rng.randrange(len(pool))})
            elif k in ("add_gates", "add_sub", "try_from"):
                ops.append({"o": k, "is": [rng.randrange(len(pool)) for _ in range(rng.randrange(0, 4))], "sn": n if rng.random() < 0.8 else n + 1})
            else: ops.append({"o": k})
        cases.append({"op": "circuit", "mode": "history", "n": n, "pool": pool, "ops": ops})
    # histories of Circuit::add_gate / add_gates on one circuit object: a rejected group (its offending gate first, in the middle or last)
    # commits nothing
    for _ in range(60 if not ctx.thorough() else 300):
        n = rng.randrange(1, 6)
        pool = [rand_any_gate(rng, n, us, bad=(rng.random() < 0.25)) for _ in range(rng.randrange(3, 9))]
        ops = []
        for _ in range(rng.randrange(1, 12)):
            if rng.random() < 0.4: ops.append({"o": "add_gate", "i": rng.randrange(len(pool))})
            else: ops.append({"o": "add_gates", "is": [rng.randrange(len(pool)) for _ in range(rng.randrange(0, 5))]})
        cases.append({"op": "circuit", "mode": "circ_history", "n": n, "pool": pool, "ops": ops})
    return cases

def cq_gate(d, orc, rb):
    if d["g"] == "op":
        op, _ = coq_op(d["kind"], orc)
        return "(GOp %s %s %s)" % (op, cqNs(d["ts"]), cqNs(d["cs"]))
    if d["g"] == "meas":
        return "(GMeas %s %s)" % (cq_basis(d), cqNs(d["qs"]))
    t = {"ops": rb["ops"] if rb else d["term"]["ops"], "coef": d["term"]["coef"]}
    if d["g"] == "pauli": return "(GPauli %s)" % cq_ps(t)
    return "(GPauliEvo %s %s %s %s)" % (cq_ps(t), cqc(orc[0], orc[1]), cqc(orc[2], orc[3]), cqc(orc[4], orc[5]))

def exec_term(c, r):
    par = cqbool(c["n"] >= c["thr"])
    gs = "[" + ";".join(cq_gate(d, o, rb) for d, o, rb in zip(c["gates"], r["oracles"], r.get("readback", [None] * len(c["gates"])))) + "]"
    e = r["exec"]
    ex = "(COk %s %s)" % (cqN(e["nq"]), cqvec(e["v"])) if e["r"] == "ok" else ("CErr" if e["r"] == "err" else "CPanic")
    t = r["trace"]
    tr = "(TOk [%s])" % ";".join(cqvec(s) for s in t["states"]) if t["r"] == "ok" else "TErr"
    return "check_circuit %s %s %s %s %s [%s] %s %s" % (par, gs, cqN(c["cn"]), cqN(c["n"]), cqvec(c["v"]), ";".join(cqf(x) for x in c["draws"]), ex, tr)

def hist_terms(c, r):
    cls = r["classes"]
    tqs, cqs = zip(*[targets_of(d) for d in c["pool"]])
    tab = lambda rows: "(fun k => nth (N.to_nat k) [%s] [])" % ";".join(cqNs(x) for x in rows)
    tq, cq = tab(tqs), tab(cqs)
    ops, outs, extra = [], [], []
    def himpl(o):
        if o["k"] == "none": return "HNone"
        if o["k"] == "sub": return "(HSub %s)" % cqNs(o["ids"])
        return "(HCirc %s %s)" % (cqbool(o["ok"]), cqNs(o.get("ids", [])))
    for o, out in zip(c["ops"], r["outs"]):
        ids = lambda v: cqNs([cls[i] for i in v])
        if o["o"] == "try_from":
            extra.append("check_tryfrom %s %s %s %s %s" % (tq, cq, ids(o["is"]), cqN(o["sn"]), himpl(out))); continue
        if o["o"] in ("add_gate", "measure_gate"): ops.append("BAddGate %s" % cqN(cls[o["i"]]))
        elif o["o"] == "add_gates": ops.append("BAddGates %s" % ids(o["is"]))
        elif o["o"] == "add_sub": ops.append("BAddSubroutine (mkSub %s %s)" % (ids(o["is"]), cqN(o["sn"])))
        elif o["o"] == "build": ops.append("BBuild")
        elif o["o"] == "build_final": ops.append("BBuildFinal")
        elif o["o"] == "build_sub": ops.append("BBuildSubroutine")
        outs.append(himpl(out))
    main = "check_history %s %s %s [%s] [%s] %s" % (tq, cq, cqN(c["n"]), ";".join(ops), ";".join(outs), cqNs(r["pending"]))
    return [main] + extra

def brief(c):
    if c["mode"] == "exec":
        return {"mode": "exec", "n": c["n"], "circuit_width": c["cn"], "len": len(c["gates"]), "split": c["split"],
                "gates": [[g["g"], g.get("kind", g.get("basis", "")), targets_of(g)] for g in c["gates"][:10]]}
    return {"mode": c["mode"], "n": c["n"], "ops": [o["o"] for o in c["ops"]][:40], "pool": len(c["pool"])}

def run_cases(ctx, cases):
    results = run_harness(cases, nproc=8)
    terms, idx = [], []
    for i, (c, r) in enumerate(zip(cases, results)):
        if r.get("r") != "ok": continue
        if c["mode"] == "exec":
            terms.append(exec_term(c, r)); idx.append((i, "e"))
        elif c["mode"] == "history":
            if foreign_gate(r): continue          # judged directly: a gate that is none of the gates handed in
            for j, t in enumerate(hist_terms(c, r)):
                terms.append(t); idx.append((i, "h%d" % j))
    outs = coq_eval(ctx, IMPORTS, terms)
    codes = {}
    for k, o in zip(idx, outs): codes[k] = parseN(o)
    return results, codes

def foreign_gate(r):
    """a built circuit / subroutine / the pending list holds a gate that equals none of the pool gates (class -1)"""
    ids = list(r.get("pending", []))
    for o in r.get("outs", []): ids += o.get("ids", []) if isinstance(o, dict) else []
    return any(i < 0 for i in ids) or any(i < 0 for i in r.get("classes", []))

def judge(ctx, cases, results, codes):
    stats = {"exec_class": 0, "exec_close": 0, "trace_class": 0, "trace_close": 0, "trace_shape": 0, "split_ok": 0, "history_ok": 0, "tryfrom_ok": 0,
             "build_err": 0, "exec_err": 0}
    for i, (c, r) in enumerate(zip(cases, results)):
        b = brief(c)
        if r.get("r") in ("panic", "crash"):
            ctx.violations.append(("panic: %s" % r.get("msg", r.get("stderr", "")), {"case": c, "brief": b})); continue
        if c["mode"] == "history" and r.get("r") == "ok":
            # the register of everything built from a builder is the builder's own (a subroutine converted directly keeps its own)
            wrong = [(k, o["o"], out.get("n")) for k, (o, out) in enumerate(zip(c["ops"], r["outs"]))
                     if isinstance(out, dict) and "n" in out and out.get("ok", True) and out["n"] != (o["sn"] if o["o"] == "try_from" else c["n"])]
            if wrong:
                ctx.violations.append(("operation %d (%s) of a history on a %d-qubit builder returned a circuit / subroutine on %s qubits" % (wrong[0][0], wrong[0][1], c["n"], wrong[0][2]),
                                       {"case": c, "brief": b})); continue
        if c["mode"] in ("history", "circ_history") and r.get("r") == "ok" and foreign_gate(r):
            ctx.violations.append(("a builder / circuit holds a gate that is none of the gates added to it (a gate was altered on the way in)", {"case": c, "brief": b})); continue
        if c["mode"] == "exec":
            in_range = all(q < c["cn"] for g in c["gates"] for q in sum(targets_of(g), []))
            if r.get("r") == "build_err":
                stats["build_err"] += 1
                if in_range: ctx.violations.append(("Circuit::with_gates rejected gates that are all inside the circuit: %s" % r.get("e"), {"case": c, "brief": b}))
                continue
            if r.get("r") != "ok": continue
            if not in_range:
                ctx.violations.append(("Circuit::with_gates accepted a gate addressing a qubit outside the circuit", {"case": c, "brief": b})); continue
            code = codes.get((i, "e"))
            if code is None: continue
            for bit, nm in ((1, "exec_class"), (2, "exec_close"), (4, "trace_class"), (8, "trace_close"), (16, "trace_shape")):
                if code & bit: stats[nm] += 1
            e, s2 = r["exec"], r["split_exec"]
            if e["r"] == "err": stats["exec_err"] += 1
            same = (e["r"] == s2["r"]) and (e["r"] != "ok" or (e["nq"] == s2["nq"] and e["v"] == s2["v"]))
            if same: stats["split_ok"] += 1
            if not r["input_unchanged"] or not r["circuit_len_after"]:
                ctx.violations.append(("execute / trace_execution changed the circuit or the input state", {"case": c, "brief": b}))
            elif not same:
                ctx.violations.append(("running the concatenation differs from running the two parts in turn (split at %d)" % c["split"], {"case": c, "brief": b}))
            elif not (code & 16):
                ctx.violations.append(("trace_execution is not [input, state after each gate .. = execute's result]", {"case": c, "brief": b}))
            elif not (code & 1) or not (code & 2) or not (code & 4) or not (code & 8):
                ctx.violations.append(("execute / trace differ from applying the gates one after another in insertion order", {"case": c, "brief": b, "verdict_bits": code,
                                       "exec": e.get("r"), "exec_e": e.get("e")}))
        elif c["mode"] == "circ_history":
            if r.get("r") != "ok": continue
            # the rule of C06_with_gates / add_gates (validate, then commit): a group is accepted iff every gate addresses qubits below the
            # width, and a rejected operation leaves the circuit as it was
            cls = r["classes"]; held = []
            okall = True
            for o, ob in zip(c["ops"], r["outs"]):
                ids = [o["i"]] if o["o"] == "add_gate" else list(o["is"])
                fits = all(q < c["n"] for i2 in ids for q in sum(targets_of(c["pool"][i2]), []))
                want = held + [cls[i2] for i2 in ids] if fits else held
                if ob["ok"] != fits or ob["ids"] != want:
                    okall = False
                    ctx.violations.append(("Circuit::%s: %s" % (o["o"], "a rejected group left gates behind (the circuit must be unchanged)" if (not fits and not ob["ok"]) else
                                           "accepted / rejected against the rule 'every target and control below the width'"),
                                           {"case": c, "brief": b, "operation": o, "gates_after": ob["ids"], "expected": want, "ok": ob["ok"]}))
                    break
                held = want
            if okall: stats["circuit_histories_ok"] = stats.get("circuit_histories_ok", 0) + 1
        else:
            if r.get("r") != "ok": continue
            j = 0
            while (i, "h%d" % j) in codes:
                code = codes[(i, "h%d" % j)]
                if j == 0:
                    if code == 3: stats["history_ok"] += 1
                    else: ctx.violations.append(("builder history: built circuits / pending gates differ from 'the gates added since the last draining build' (bits %d)" % code,
                                                 {"case": c, "brief": b, "outs": r["outs"], "pending": r["pending"]}))
                else:
                    if code == 1: stats["tryfrom_ok"] += 1
                    else: ctx.violations.append(("TryFrom<Subroutine> for Circuit differs from the specification", {"case": c, "brief": b}))
                j += 1
    return stats

def run(ctx):
    proof_ok = proof_check(ctx)
    if ctx.thorough() and proof_ok:
        coqchk(ctx)
    cases = gen_cases(ctx)
    results, codes = run_cases(ctx, cases)
    stats = judge(ctx, cases, results, codes)
    ctx.broken = ctx.broken[:5]
    kinds = {}
    for c in cases:
        if c["mode"] == "exec":
            for g in c["gates"]: kinds[g["g"]] = kinds.get(g["g"], 0) + 1
    hops = {}
    for c in cases:
        if c["mode"] == "history":
            for o in c["ops"]: hops[o["o"]] = hops.get(o["o"], 0) + 1
    return finish(ctx, trusted=TRUSTED, evaluations=len(cases), nontrivial=len(cases),
                  rule="random circuits of 0..24(60) gates on 1..6(7) qubits mixing operator gates (all kinds), measurement gates in four bases under queued draws, Pauli-string and "
                       "time-evolution gates, with out-of-range gates and width mismatches; execute, trace_execution and a random split point on each; random builder histories of "
                       "1..24(80) operations (add_gate / add_gates / add_subroutine / build / build_final / build_subroutine / TryFrom) over gate pools with ~10% out-of-range gates",
                  samples=[brief(c) for c in cases[:1]], extra={"verdict_counts": stats, "executed_gate_variants": kinds, "history_op_counts": hops})

def replay(ctx, path):
    body = json.load(open(path))
    case = body["replay"].get("case")
    if not case:
        print("replay file carries no concrete case:", body["what"]); return 1
    results, codes = run_cases(ctx, [case])
    n0 = len(ctx.violations)
    judge(ctx, [case], results, codes)
    print(json.dumps({"brief": brief(case), "codes": {str(k): v for k, v in codes.items()}, "violations": [w for w, _ in ctx.violations[n0:]]}, indent=1))
    return 1 if len(ctx.violations) > n0 else 0
