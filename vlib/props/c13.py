"""C13: OpenQASM export denotes the same program the simulator executes."""
from ..common import *
from ..qasmcases import *
import math, re

TRUSTED = [
    "Coq 8.16.1 kernel; vm_compute to RUN the lexer, the parser, the OpenQASM-subset semantics (Spec/QasmSem.v) and C01/C02's models on the cases",
    "the meaning of stdgates.inc names, of `ctrl(n) @`, of the built-in U(theta,phi,lambda) (the u3 form without extra global phase) and of the emitted routines is my reading of the OpenQASM 3 "
    "specification; no reference front end is available offline",
    "numeric literals are converted to binary64 by the driver (Python float(): correctly rounded) and their cos/sin supplied as a table; the f64 Display contract is assumed",
    "a measurement group (consecutive assignments to one register) is read as ONE joint measurement with one draw, justified by commutation of operations on different qubits",
]

def gen_cases(ctx):
    rng = ctx.rng
    us = exact_unitaries(rng)
    cases = []
    def mk(n, gates):
        nm = sum(1 for g in gates if g["g"] == "meas")
        cases.append({"op": "export", "mode": "exec", "n": n, "gates": gates, "v": rand_vec(rng, n, "normalised"),
                      "draws": [float2bits(rng.choice([0.07, 0.21, 0.43, 0.58, 0.74, 0.93])) for _ in range(nm)], "thr": 10})
    # every exportable kind with 0..2 controls, alone (so that a wrong statement is not masked)
    for kind in EXPORTABLE:
        for nc in (0, 1, 2):
            for _ in range(2):
                g = None
                for _ in range(300):
                    g = rand_gate(rng, 4, [kind])
                    if len(g["cs"]) == nc or kind in ("CNOT", "Toffoli"): break
                mk(4, [dict(g, g="op")])
    # rotations and phases by exactly pi, -pi, pi/2, 2 pi, 0 under one and two controls: a controlled half turn is not the controlled Pauli
    # gate (the phase between them is observable under the control)
    for kind in ("RX", "RY", "RZ", "P"):
        for ang in (math.pi, -math.pi, math.pi / 2, 2 * math.pi, 0.0):
            for cs in ([1], [2, 0]):
                mk(3, [{"g": "op", "kind": "H", "params": [], "ts": [q], "cs": []} for q in range(3)] + [{"g": "op", "kind": kind, "params": [float2bits(ang)], "ts": [[q for q in range(3) if q not in cs][0]], "cs": cs}])
            mk(2, [{"g": "param", "kind": kind, "vals": [float2bits(ang)] * 3, "ts": [0], "cs": [1]}])
    # custom unitaries of special shape, uncontrolled: anti-diagonal (X, Y and their phase multiples), diagonal, real - every branch of the
    # exporter's angle extraction
    from ..gatecases import structured_unitaries
    for params in structured_unitaries(rng):
        mk(2, [{"g": "op", "kind": "H", "params": [], "ts": [q], "cs": []} for q in range(2)] + [{"g": "op", "kind": "U2", "params": params, "ts": [rng.randrange(2)], "cs": []}])
    # measurement groups in each basis at any position, with gates before and after
    for b in ("C", "X", "Y", "U"):
        for k in range(10 if b != "U" else 2 * len(us)):
            n = rng.randrange(1, 5)
            qs = rng.sample(range(n), rng.randrange(0, n + 1)) if b != "U" else [rng.randrange(n)]
            d = {"g": "meas", "basis": b, "qs": qs}
            if b == "U": d["u"] = us[k % len(us)]           # every matrix of the pool, the non-symmetric ones included
            pre = rand_circuit(rng, n, rng.randrange(1, 5), us, allow=("op",)); post = rand_circuit(rng, n, rng.randrange(0, 4), us, allow=("op",))
            mk(n, pre + [d] + post)
    # parametric gates (after set) and Pauli-string gates
    for _ in range(30):
        n = rng.randrange(1, 5)
        gates = rand_circuit(rng, n, rng.randrange(1, 6), us, allow=("op", "pauli"))
        kind = rng.choice(["RX", "RY", "RZ", "P"])
        ts = rng.sample(range(n), rng.randrange(1, min(n, 2) + 1))
        rest = [q for q in range(n) if q not in ts]
        gates.insert(rng.randrange(len(gates) + 1), {"g": "param", "kind": kind, "vals": [float2bits(rng.uniform(-3, 3))] * 3, "ts": ts, "cs": rng.sample(rest, rng.randrange(0, min(2, len(rest)) + 1))})
        mk(n, gates)
    # operations without an OpenQASM form must be REFUSED: non-finite angles (no literal denotes them), plain, controlled and
    # parametric (Pauli time evolution is documented as unimplemented: it panics with that message, C05's stated exception)
    n0 = len(cases)
    for bad in (float("inf"), float("-inf"), float("nan")):
        for kind in ("P", "RX", "RY", "RZ"):
            for nc in (0, 1):
                g = {"g": "op", "kind": kind, "params": [float2bits(bad)], "ts": [0], "cs": [2][:nc]}
                mk(3, rand_circuit(rng, 3, rng.randrange(0, 3), us, allow=("op",)) + [g] + rand_circuit(rng, 3, rng.randrange(0, 2), us, allow=("op",)))
        mk(3, [{"g": "param", "kind": rng.choice(["RX", "RY", "RZ", "P"]), "vals": [float2bits(bad)] * 3, "ts": [1], "cs": [0]}])
    for c in cases[n0:]: c["refuse"] = True
    # Pauli time evolution: documented as having no OpenQASM form yet (the export stops with "not yet implemented", C05's stated
    # exception); should some of them be exported after all, the program must still mean exp(-i c t P), coefficient included
    n0 = len(cases)
    for nf in (1, 1, 1, 2, 3):
        for coef in (1.0, 0.5, -1.0, 2.5):
            n = 3
            ops = [[q, rng.choice("XYZ")] for q in rng.sample(range(n), nf)]
            evo = {"g": "evo", "term": {"ops": ops, "coef": [float2bits(coef), float2bits(0.0)]}, "dt": float2bits(rng.choice([0.3, -0.7, 1.1]))}
            mk(n, rand_circuit(rng, n, rng.randrange(0, 3), us, allow=("op",)) + [evo] + rand_circuit(rng, n, rng.randrange(0, 2), us, allow=("op",)))
    for c in cases[n0:]: c["evo"] = True
    # longer programs (33 .. 70 statements, odd and even counts): statement ORDER matters for non-commuting gates, and a lowering that
    # works in blocks or in parallel only shows on circuits of this length
    for L in ((33, 41, 64, 57) if not ctx.thorough() else (33, 35, 41, 57, 64, 65, 97, 129)):
        n = rng.randrange(2, 5)
        mk(n, rand_circuit(rng, n, L, us, allow=("op",)))
    # random circuits
    for _ in range(80 if not ctx.thorough() else 400):
        n = rng.randrange(1, 6)
        gates = rand_circuit(rng, n, rng.randrange(1, 25 if not ctx.thorough() else 80), us)
        gates = [g for g in gates if not (g["g"] == "meas" and g["basis"] == "U" and len(g["qs"] or range(n)) != 1)]
        mk(n, gates)
    return cases

def lit_table(text):
    seen, out = set(), []
    for m in re.finditer(r"\b(?:p|rx|ry|rz|U)\(([^)]*)\)", strip_comments(text)):
        for t in m.group(1).split(","):
            t = t.strip()
            if t in seen: continue
            seen.add(t)
            v = float(t)
            neg = t.startswith("-"); body = t.lstrip("-")
            e = ('(EFloat %s "%s"%%string)' % (cqbool(neg), body)) if ("." in body or "e" in body.lower()) else "(EInt %s %s)" % (cqbool(neg), cqN(int(body)))
            out.append("(%s,(%s,%s,%s,%s))" % (e, cqf(float2bits(math.cos(v / 2))), cqf(float2bits(math.sin(v / 2))), cqf(float2bits(math.cos(v))), cqf(float2bits(math.sin(v)))))
    return "[" + ";".join(out) + "]"

def controlled_custom(c):
    return any(g["g"] == "op" and g["kind"] in ("U2", "RYP", "RYPdag") and g["cs"] for g in c["gates"])

def brief(c):
    return {"n": c["n"], "len": len(c["gates"]), "gates": [[g["g"], g.get("kind", g.get("basis", "")), g.get("ts", g.get("qs", "")), g.get("cs", ""),
            [round(bits2float(p), 6) for p in g.get("params", [])][:8]] for g in c["gates"][:10]]}

def run_cases(ctx, cases):
    results = run_harness(cases, nproc=8)
    terms, idx = [], []
    for i, (c, r) in enumerate(zip(cases, results)):
        if r.get("r") == "ok" and not c.get("refuse"):
            e = r["exec"]
            terms.append("check_export_sem false %s %s %s %s [%s] %s %s" % (cq_string(r["text"]), lit_table(r["text"]), cqN(c["n"]), cqvec(c["v"]),
                         ";".join(cqf(x) for x in c["draws"]), cqbool(e["r"] == "ok"), cqvec(e["v"]) if e["r"] == "ok" else "[]")); idx.append(i)
    outs = coq_eval(ctx, QASM_EVAL_IMPORTS, terms)
    codes = [None] * len(cases)
    for i, o in zip(idx, outs): codes[i] = parseN(o)
    # the objects of the soundness theorem on the real text: parsed body = body_stmts 0 (lower_all circuit)
    lt, li = [], []
    for i, (c, r) in enumerate(zip(cases, results)):
        if r.get("r") == "ok" and not c.get("refuse"):
            xs = xgates(c)
            if xs is not None:
                lt.append("check_lowering %s %s" % (cq_string(r["text"]), xs)); li.append(i)
    louts = coq_eval(ctx, QASM_EVAL_IMPORTS + "\nFrom QI Require Import Model.Measure Model.QasmLower.", lt, tag="lower")
    ctx.cov["lowering_checked"] = len(lt)
    bad = [cases[i] for i, o in zip(li, louts) if parseN(o) != 7]
    ctx.cov["lowering_equal"] = len(lt) - len(bad)
    for c in bad[:3]:
        ctx.broken.append("the body parsed from the exported text is not body_stmts 0 (lower_all circuit) of Model/QasmLower.v on %s" % json.dumps(brief(c))[:300])
    return results, codes

OPCTOR = {"H": "OpH", "X": "OpX", "Y": "OpY", "Z": "OpZ", "S": "OpS", "T": "OpT", "Sdag": "OpSdag", "Tdag": "OpTdag", "I": "OpI",
          "CNOT": "OpCNOT", "Toffoli": "OpToffoli", "SWAP": "OpSWAP"}
def xgates(c):
    """the circuit as a Gallina list of xgate (QasmLower), or None when it contains a custom unitary / custom basis"""
    out = []
    for g in c["gates"]:
        if g["g"] in ("op", "param"):
            k = g["kind"]
            if k in OPCTOR:
                tss = [g["ts"]] if k == "SWAP" else [[t] for t in g["ts"]]
                for ts in tss: out.append("XOp %s None %s %s" % (OPCTOR[k], cqNs(ts), cqNs(g["cs"])))
            elif k in ("P", "RX", "RY", "RZ"):
                ang = bits2float(g["params"][0] if g["g"] == "op" else g["vals"][0])
                d = rust_display(ang)
                if d is None: return None
                for t in g["ts"]: out.append("XOp (Op%s 0 0) (Some %s) %s %s" % (k, cq_lit(d), cqNs([t]), cqNs(g["cs"])))
            else: return None
        elif g["g"] == "meas":
            if g["basis"] == "U": return None
            out.append("XMeas %s %s" % ({"C": "BComp", "X": "BX", "Y": "BY"}[g["basis"]], cqNs(g["qs"] or list(range(c["n"])))))
        elif g["g"] == "pauli":
            for q, p in sorted(g["term"]["ops"]): out.append("XOp Op%s None %s []" % (p, cqNs([q])))
        else: return None
    return "[" + ";".join(out) + "]"

def roundtrip_ok(c, r):
    """every angle of a P/RX/RY/RZ (also parametric) gate appears in the text as a literal that parses back to exactly that value"""
    want = []
    for g in c["gates"]:
        if g["g"] == "op" and g["kind"] in ("P", "RX", "RY", "RZ"): want += [bits2float(g["params"][0])] * len(g["ts"])
        if g["g"] == "param" and g["kind"] in ("P", "RX", "RY", "RZ"): want += [bits2float(g["vals"][0])] * len(g["ts"])
    got = [float(m.group(1)) for m in re.finditer(r"^\s*(?:ctrl\(\d+\) @ )?(?:p|rx|ry|rz)\(([^)]*)\)", strip_comments(r["text"]), flags=re.M)]
    return want == got

def gate_matrix(g):
    import cmath
    if g["kind"] == "U2":
        p = [bits2float(x) for x in g["params"]]
        return [[complex(p[0], p[1]), complex(p[2], p[3])], [complex(p[4], p[5]), complex(p[6], p[7])]]
    th, ph = bits2float(g["params"][0]), bits2float(g["params"][1])
    c, s = math.cos(th / 2), math.sin(th / 2)
    if g["kind"] == "RYP":
        e = cmath.exp(1j * ph); return [[c, -e * s], [s, e * c]]
    e = cmath.exp(-1j * ph); return [[c, s], [-e * s, e * c]]

def phase_fixes(c, text):
    """for every CONTROLLED custom unitary (in statement order): the phase factor between its matrix and the emitted U(theta,phi,lambda)"""
    import cmath
    us = u_literals(text); k = 0; out = []
    for g in c["gates"]:
        if g["g"] == "op" and g["kind"] in ("U2", "RYP", "RYPdag"):
            t, f, l = [float(x) for x in us[k]]; k += 1
            if g["cs"]:
                u3 = [[math.cos(t / 2), -cmath.exp(1j * l) * math.sin(t / 2)], [cmath.exp(1j * f) * math.sin(t / 2), cmath.exp(1j * (f + l)) * math.cos(t / 2)]]
                M = gate_matrix(g)
                i, j = max(((i, j) for i in range(2) for j in range(2)), key=lambda ij: abs(u3[ij[0]][ij[1]]))
                z = M[i][j] / u3[i][j]
                out.append(cqc(float2bits(z.real), float2bits(z.imag)))
        elif g["g"] == "meas" and g["basis"] == "U":
            k += 2 * len(g["qs"] or range(c["n"]))
    return "[" + ";".join(out) + "]"

def explained_by_known_finding(ctx, c, r):
    e = r["exec"]
    if e["r"] != "ok": return False
    t = "check_export_sem_fixed %s %s %s %s [%s] %s %s" % (cq_string(r["text"]), lit_table(r["text"]), cqN(c["n"]), cqvec(c["v"]),
         ";".join(cqf(x) for x in c["draws"]), phase_fixes(c, r["text"]), cqvec(e["v"]))
    return coq_eval(ctx, QASM_EVAL_IMPORTS, [t], tag="kf")[0].strip() == "true"

def judge(ctx, cases, results, codes):
    stats = {"parsed": 0, "program_runs": 0, "state_equal": 0, "state_equal_up_to_global_phase": 0, "angles_round_trip": 0, "controlled_custom_unitary_cases": 0}
    known = load_known()
    kf = [k for k in known if k.get("property") == "C13" and k.get("class") == "controlled-unitary-global-phase"]
    for c, r, code in zip(cases, results, codes):
        b = brief(c)
        if c.get("evo") and (r.get("r") == "err" or (r.get("r") == "panic" and "not yet implemented" in r.get("msg", ""))):
            stats["time_evolution_not_exported"] = stats.get("time_evolution_not_exported", 0) + 1; continue
        if r.get("r") in ("panic", "crash"):
            ctx.violations.append(("export panicked: %s" % r.get("msg", ""), {"case": c, "brief": b})); continue
        if c.get("refuse"):
            stats["refusals_expected"] = stats.get("refusals_expected", 0) + 1
            if r.get("r") == "err": stats["refused"] = stats.get("refused", 0) + 1
            else: ctx.violations.append(("a circuit containing an operation without an OpenQASM form (non-finite angle) was exported instead of refused",
                                         {"case": c, "brief": b, "text": r.get("text", "")[:1500]}))
            continue
        if r.get("r") == "err":
            ctx.violations.append(("export refused an exportable circuit: %s" % r.get("e"), {"case": c, "brief": b})); continue
        if code is None: continue
        for bit, nm in ((1, "parsed"), (2, "program_runs"), (4, "state_equal"), (8, "state_equal_up_to_global_phase")):
            if code & bit: stats[nm] += 1
        rt = roundtrip_ok(c, r) or bool(c.get("evo"))
        if rt: stats["angles_round_trip"] += 1
        if controlled_custom(c): stats["controlled_custom_unitary_cases"] += 1
        if not (code & 1) or not (code & 2):
            ctx.violations.append(("the exported text has no meaning under the OpenQASM subset semantics (does not parse / unknown statement)", {"case": c, "brief": b, "text": r["text"][:1500]}))
        elif not rt:
            ctx.violations.append(("an angle is not printed precisely enough to round-trip / is not the gate's current value", {"case": c, "brief": b, "text": r["text"][:1500]}))
        elif not (code & 8):
            if controlled_custom(c) and kf and explained_by_known_finding(ctx, c, r):
                stats["explained_by_known_finding"] = stats.get("explained_by_known_finding", 0) + 1
                if kf[0]["what"] not in ctx.known: ctx.known.append(kf[0]["what"])
            else:
                ctx.violations.append(("the exported program transforms the register differently from Circuit::execute", {"case": c, "brief": b, "text": r["text"][:1500], "verdict_bits": code}))
    return stats

def run(ctx):
    proof_ok = proof_check(ctx)
    if ctx.thorough() and proof_ok:
        coqchk(ctx)
    cases = gen_cases(ctx)
    results, codes = run_cases(ctx, cases)
    stats = judge(ctx, cases, results, codes)
    ctx.broken = ctx.broken[:5]
    return finish(ctx, trusted=TRUSTED, evaluations=len(cases), nontrivial=len(cases),
                  rule="every exportable gate kind alone with 0..2 controls; measurement groups in each basis (custom basis: one qubit) between random gates, under queued draws; parametric gates "
                       "whose parameter was set after creation; Pauli-string gates; random circuits of 1..25(80) statements on 1..5 qubits; the real text is lexed, parsed and RUN by the OpenQASM-subset "
                       "semantics inside Coq on a random probe state and compared with Circuit::execute (equal up to one global phase); angle literals must parse back to the exact value",
                  samples=[brief(c) for c in cases[:1]], extra={"verdict_counts": stats})

def replay(ctx, path):
    body = json.load(open(path))
    case = body["replay"].get("case")
    if not case:
        print("replay file carries no concrete case:", body["what"]); return 1
    results, codes = run_cases(ctx, [case])
    n0 = len(ctx.violations)
    judge(ctx, [case], results, codes)
    print(results[0].get("text", "")[:1500]); print(json.dumps({"brief": brief(case), "code": codes[0], "violations": [w for w, _ in ctx.violations[n0:]]}, indent=1)[:2000])
    return 1 if len(ctx.violations) > n0 else 0
