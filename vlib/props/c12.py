"""C12: state constructors, products and Fubini-Study metrics obey their algebraic laws."""
from ..common import *
from ..gatecases import rand_vec
import math, cmath

TRUSTED = [
    "Coq 8.16.1 kernel; vm_compute to RUN the model on the cases",
    "real-number theorems use the standard library's real axioms and classical logic (via Coquelicot's Complex): sig_forall_dec, sig_not_dec, functional_extensionality_dep, classic",
    "libm acos / hypot are not modelled: fs_dist is checked through identities on the implementation's outputs (range, finiteness, self-distance, symmetry, cos^2 d = F, triangle inequality)",
    "hand-written model Model/StateCtor.v + Model/StateOps.v tied to state.rs by this correspondence run; float rounding not modelled (1e-12)",
]
IMPORTS = "From QI Require Import Base.Scalar Model.Outcome Model.Gates Model.StateOps Model.StateCtor Run.FloatInst Run.EvalGates Run.EvalState."
CT = {"zero": 0, "basis": 1, "plus": 2, "minus": 3, "ghz": 4, "hf": 5, "phi_plus": 6, "phi_minus": 7, "psi_plus": 8, "psi_minus": 9}

def sv(rng, n, style="normalised", scale=1.0):
    v = rand_vec(rng, n, style)
    if scale != 1.0:
        v = [float2bits(bits2float(x) * scale) for x in v]
    return {"n": n, "v": v}

def gen_cases(ctx):
    rng = ctx.rng
    cases = []
    mk = lambda mode, **kw: cases.append(dict({"op": "state", "mode": mode}, **kw))
    nmax = 12 if not ctx.thorough() else 14
    for n in range(0, nmax + 1):
        for k in ("zero", "plus", "minus", "ghz"):
            mk("ctor", kind=k, args=[n])
        for idx in {0, 1, (1 << n) - 1 if n else 0, 1 << n, (1 << n) + 1, rng.randrange(0, (1 << n) + 1)}:
            mk("ctor", kind="basis", args=[n, idx])
    for o in range(0, 11):
        for e in range(0, o + 3):
            mk("ctor", kind="hf", args=[e, o])
    for k in ("phi_plus", "phi_minus", "psi_plus", "psi_minus"):
        mk("ctor", kind=k, args=[])
    # State::new: normalised / not / bad lengths / borderline norms
    for _ in range(30):
        n = rng.randrange(1, 8)
        mk("ctor", kind="new", v=rand_vec(rng, n, rng.choice(["normalised", "normalised", "generic"])), args=[])
    for L in (0, 3, 5, 6, 12):
        mk("ctor", kind="new", v=[float2bits(1.0 / math.sqrt(max(L, 1))), float2bits(0.0)] * L, args=[])
    # norms that are off by a few units in the last place, well inside (half of) and well outside (twice) the documented tolerance
    # EPSILON * len: what a sequence of rotations leaves behind
    EPS = 2.0 ** -52
    for n in (4, 5, 6, 7):
        for dev in (0.5, -0.5, 2.0, -2.0):
            mk("ctor", kind="new", v=sv(rng, n, "normalised", math.sqrt(1 + dev * (1 << n) * EPS))["v"], args=[])
    for n1, n2 in ((4, 2), (2, 4), (4, 4), (5, 3), (3, 5), (6, 1)):
        mk("tensor", a=sv(rng, n1, "normalised", math.sqrt(1 + 0.45 * (1 << n1) * EPS)), b=sv(rng, n2, "normalised", math.sqrt(1 + 0.45 * (1 << n2) * EPS)))
        mk("tensor", a=sv(rng, n1, "normalised", math.sqrt(1 - 0.45 * (1 << n1) * EPS)), b=sv(rng, n2, "normalised", math.sqrt(1 - 0.45 * (1 << n2) * EPS)))
    # tensor products on both sides of the 64-amplitude threshold
    for n1 in range(1, 8):
        for n2 in range(1, 8):
            if n1 + n2 > (10 if not ctx.thorough() else 13): continue
            mk("tensor", a=sv(rng, n1), b=sv(rng, n2))
    for _ in range(12):
        mk("tensor", a=sv(rng, rng.randrange(1, 4), "generic"), b=sv(rng, rng.randrange(1, 4)))       # un-normalised operand -> error
    mk("tensor", a={"n": 0, "v": [float2bits(1.0), float2bits(0.0)]}, b=sv(rng, 1))
    for _ in range(40 if not ctx.thorough() else 150):
        ns = [rng.randrange(1, 5) for _ in range(3)]
        if rng.random() < 0.5: ns = rng.choice([[3, 3, 1], [1, 3, 3], [2, 2, 3], [3, 1, 3], [4, 2, 1], [1, 2, 4], [2, 4, 2]])
        mk("tensor3", a=sv(rng, ns[0]), b=sv(rng, ns[1]), c=sv(rng, ns[2]))
    # inner products, normalise, fidelity
    for _ in range(60 if not ctx.thorough() else 250):
        n = rng.randrange(1, 10 if not ctx.thorough() else 13)
        mk("inner", a=sv(rng, n, "generic"), b=sv(rng, n, rng.choice(["generic", "normalised"])))
        mk("normalise", a=sv(rng, n, "generic", rng.choice([1.0, 1.0, 1e-17, 1e-100, 1e100, 3.0])))
        mk("fidelity", a=sv(rng, n, "generic", rng.choice([1.0, 1e-17, 7.0])), b=sv(rng, n, "generic"))
    # vectors on one half-line of each axis: all amplitudes real and <= 0, real and >= 0, imaginary of one sign (global phases -1, +-i of a real state)
    for n in (1, 2, 3, 5):
        base = [abs(bits2float(x)) for x in rand_vec(rng, n, "generic")[0::2]]
        if n == 1: base = [0.0, 1.0]                           # -|1>
        for ph in (-1.0, 1.0, 1j, -1j):
            v = []
            for x in base: z = ph * x; v += [float2bits(z.real), float2bits(z.imag)]
            a = {"n": n, "v": v}
            mk("normalise", a=a); mk("fidelity", a=a, b=sv(rng, n, "generic")); mk("fidelity", a=a, b={"n": n, "v": [float2bits(x) for y in base for x in (y, 0.0)]})
            mk("metrics", a=a, b=sv(rng, n, "normalised"), c={"n": n, "v": [float2bits(x) for y in base for x in (y, 0.0)]}, z=[float2bits(-1.0), float2bits(0.0)])
    for n in (1, 2, 3, 7):
        z = {"n": n, "v": [float2bits(0.0)] * (2 << n)}
        mk("normalise", a=z); mk("fidelity", a=z, b=sv(rng, n)); mk("inner", a=sv(rng, n), b=sv(rng, n + 1))
    # the metrics on triples (identities evaluated on the implementation's outputs)
    for _ in range(150 if not ctx.thorough() else 800):
        n = rng.randrange(1, 8)
        phi = rng.uniform(-math.pi, math.pi); lam = rng.choice([1.0, 1.0, rng.uniform(0.1, 5.0), 1e-17])
        z = cmath.exp(1j * phi) * lam
        style = rng.choice(["normalised", "normalised", "generic"])
        mk("metrics", a=sv(rng, n, style), b=sv(rng, n, style), c=sv(rng, n, style), z=[float2bits(z.real), float2bits(z.imag)])
    # nearby but distinct rays on a short geodesic (distance 1e-5 .. 1e-3): the metric must not collapse them
    for _ in range(30 if not ctx.thorough() else 120):
        n = rng.randrange(1, 6)
        a = sv(rng, n, "normalised"); r = sv(rng, n, "normalised")
        eps = rng.choice([1e-3, 7e-4, 3e-4, 1e-4, 1e-5])
        av = [bits2float(x) for x in a["v"]]; rv = [bits2float(x) for x in r["v"]]
        def near(t):
            w = [x + t * eps * y for x, y in zip(av, rv)]
            nrm = math.sqrt(sum(x * x for x in w))
            return {"n": n, "v": [float2bits(x / nrm) for x in w]}
        mk("metrics", a=a, b=near(1.0), c=near(2.0), z=[float2bits(math.cos(0.3)), float2bits(math.sin(0.3))])
    # arithmetic
    for _ in range(40 if not ctx.thorough() else 150):
        n = rng.randrange(1, 9)
        a, b = sv(rng, n, "generic"), sv(rng, n, "generic")
        z = [ctx.randf(-2, 2), ctx.randf(-2, 2)]; f = ctx.randf(-3, 3)
        mk("add", a=a, b=b); mk("sub", a=a, b=b); mk("mul_c", a=a, z=z); mk("c_mul", a=a, z=z); mk("mul_f", a=a, f=f); mk("f_mul", a=a, f=f)
        mk("sum", list=[sv(rng, n, "generic") for _ in range(rng.randrange(1, 6))])
    # <a|a> with one object on both sides, for vectors that are not normalised (and for normalised ones)
    for n in (1, 2, 3, 7):
        for st in ("generic", "normalised", "generic"):
            mk("inner_self", a=sv(rng, n, st))
    # long sums (more than 64 states, counts that are not multiples of 64): every summand counts
    for k in (65, 100, 130):
        n = rng.randrange(1, 4)
        mk("sum", list=[sv(rng, n, "generic") for _ in range(k)])
    mk("add", a=sv(rng, 2), b=sv(rng, 3)); mk("sub", a=sv(rng, 1), b=sv(rng, 2)); mk("sum", list=[]); mk("sum", list=[sv(rng, 1), sv(rng, 2)])
    # scalars on an axis (purely imaginary, purely real, zero, -0 real part) on either side of the state; and inner products whose first
    # or second argument is a basis state carrying a sign, a phase or a scale (Z|1>, Y|0>, -|k>, 0.5|k>)
    for n in (1, 2, 3, 5, 7, 8):          # 7, 8: beyond the 64-amplitude threshold of the parallel inner product
        a = sv(rng, n, "generic")
        for z in ((0.0, 1.0), (0.0, -0.7), (-0.0, 2.5), (1.5, 0.0), (-1.0, 0.0), (0.0, 0.0), (0.0, 1e-9)):
            zz = [float2bits(z[0]), float2bits(z[1])]
            mk("mul_c", a=a, z=zz); mk("c_mul", a=a, z=zz)
        for f in (0.0, -1.0, -0.0, 1.0):
            mk("mul_f", a=a, f=float2bits(f)); mk("f_mul", a=a, f=float2bits(f))
        dim = 1 << n
        for c in ((-1.0, 0.0), (0.0, 1.0), (0.0, -1.0), (0.5, 0.0), (0.6, -0.8), (2.0, 1.0)):
            k = rng.randrange(dim)
            v = [float2bits(0.0)] * (2 * dim); v[2 * k], v[2 * k + 1] = float2bits(c[0]), float2bits(c[1])
            e = {"n": n, "v": v}
            b = sv(rng, n, rng.choice(["generic", "normalised"]))
            mk("inner", a=e, b=b); mk("inner", a=b, b=e); mk("inner", a=e, b=e); mk("inner_self", a=e)
    # vectors with exact zeros next to purely real and purely imaginary amplitudes (e.g. (|0> + i|1>)/sqrt 2 (x) |0..0>) on either side,
    # below and above the threshold of the parallel inner product: a "skip the zero amplitudes" shortcut must look at both parts
    for n in (2, 6, 7, 8, 9):
        for _ in range(2):
            e = sv(rng, n, "axis"); b = sv(rng, n, rng.choice(["generic", "normalised", "axis"]))
            mk("inner", a=e, b=b); mk("inner", a=b, b=e); mk("inner_self", a=e); mk("fidelity", a=e, b=b); mk("fidelity", a=e, b=e)
    # the same operations inside pools of 3 / 5 / 6 workers (counts that do not divide the vector length), on 16 .. 256 amplitudes
    for k in (3, 5, 6):
        for n in (4, 5, 7, 8):
            a, b = sv(rng, n, "generic"), sv(rng, n, "generic")
            z = [ctx.randf(-2, 2), ctx.randf(-2, 2)]
            for kw in (dict(mode="add", a=a, b=b), dict(mode="sub", a=a, b=b), dict(mode="mul_c", a=a, z=z), dict(mode="c_mul", a=a, z=z), dict(mode="inner", a=a, b=b),
                       dict(mode="normalise", a=a), dict(mode="sum", list=[sv(rng, n, "generic") for _ in range(3)])):
                mk(**kw); cases[-1]["in_pool"] = k
        mk("tensor", a=sv(rng, 3), b=sv(rng, 4)); cases[-1]["in_pool"] = k
    return cases

def cst(s): return "(mkState %s %s)" % (cqN(s["n"]), cqvec(s["v"]))
def cres(r):
    if r["r"] == "ok":
        if "v" in r: return "(SState %s %s)" % (cqN(r["nq"]), cqvec(r["v"]))
        if "z" in r: return "(SCplx %s)" % cqc(*r["z"])
        if "x" in r: return "(SReal %s)" % cqf(r["x"])
    if r["r"] == "err": return "SErr"
    return "SPanic"

def coq_term(c, r):
    m = c["mode"]
    if m == "ctor":
        if c["kind"] == "new": return "check_state_res (fnew %s) %s" % (cqvec(c["v"]), cres(r))
        a = c["args"] + [0, 0]
        return "check_state_res (ctor %s %s %s) %s" % (cqN(CT[c["kind"]]), cqN(a[0]), cqN(a[1]), cres(r))
    if m == "tensor": return "check_state_res (tensor %s %s) %s" % (cst(c["a"]), cst(c["b"]), cres(r))
    if m == "inner_self": return "check_cplx_res (inner_product fops %s %s) (vmaxabs %s * vmaxabs %s * 2)%%float %s" % (cst(c["a"]), cst(c["a"]), cqvec(c["a"]["v"]), cqvec(c["a"]["v"]), cres(r))
    if m == "inner": return "check_cplx_res (inner_product fops %s %s) (vmaxabs %s * vmaxabs %s * 2)%%float %s" % (cst(c["a"]), cst(c["b"]), cqvec(c["a"]["v"]), cqvec(c["b"]["v"]), cres(r))
    if m == "normalise": return "check_state_res (normalise fops %s) %s" % (cst(c["a"]), cres(r))
    if m == "fidelity": return "check_real_res (fidelity %s %s) %s" % (cst(c["a"]), cst(c["b"]), cres(r))
    if m == "add": return "check_state_res (add_states fops %s %s) %s" % (cst(c["a"]), cst(c["b"]), cres(r))
    if m == "sub": return "check_state_res (sub_states fops %s %s) %s" % (cst(c["a"]), cst(c["b"]), cres(r))
    if m == "mul_c": return "check_state_res (Ok (scale_state fops %s %s)) %s" % (cqc(*c["z"]), cst(c["a"]), cres(r))
    if m == "mul_f": return "check_state_res (Ok (scale_state fops (cre fops %s) %s)) %s" % (cqf(c["f"]), cst(c["a"]), cres(r))
    if m == "c_mul": return "check_state_res (Ok (mkState %s (vscale_l fops %s %s))) %s" % (cqN(c["a"]["n"]), cqc(*c["z"]), cqvec(c["a"]["v"]), cres(r))
    if m == "f_mul": return "check_state_res (Ok (mkState %s (vscale_l fops (cre fops %s) %s))) %s" % (cqN(c["a"]["n"]), cqf(c["f"]), cqvec(c["a"]["v"]), cres(r))
    if m == "sum": return "check_state_res (sum_states fops [%s]) %s" % (";".join(cst(s) for s in c["list"]), cres(r))
    return None

def brief(c):
    b = {"mode": c["mode"]}
    for k in ("kind", "args"): 
        if k in c: b[k] = c[k]
    for k in ("a", "b", "c"):
        if k in c: b[k + "_n"] = c[k]["n"]
    return b

def fx(o):   # metric result -> float or None
    return bits2float(o["x"]) if o.get("r") == "ok" else None

def judge_metrics(ctx, c, r, stats):
    known = load_known()
    g = {k: fx(v) for k, v in r.items() if isinstance(v, dict)}
    bad = []
    fin = lambda x: x is not None and not math.isnan(x) and not math.isinf(x)
    for k in ("d_ab", "d_ba", "d_bc", "d_ac", "d_aa", "d_za_b", "d_za_a"):
        if not fin(g[k]): bad.append("%s is %r: fs_dist must always be a finite number" % (k, g[k] if g[k] is not None else r[k].get("e")))
        elif not (-1e-12 <= g[k] <= math.pi / 2 + 1e-12): bad.append("%s = %r outside [0, pi/2]" % (k, g[k]))
    for k in ("f_ab", "f_ba", "f_aa", "f_za_b", "f_za_a"):
        if not fin(g[k]): bad.append("%s is %r" % (k, g[k]))
        elif not (-1e-12 <= g[k] <= 1 + 1e-12): bad.append("%s = %r outside [0,1]" % (k, g[k]))
    if not bad:
        if g["d_aa"] > 1e-7: bad.append("fs_dist(a,a) = %r, not 0" % g["d_aa"])
        if abs(g["f_aa"] - 1) > 1e-12: bad.append("fidelity(a,a) = %r, not 1" % g["f_aa"])
        if abs(g["d_ab"] - g["d_ba"]) > 1e-7: bad.append("fs_dist not symmetric: %r vs %r" % (g["d_ab"], g["d_ba"]))
        if abs(g["f_ab"] - g["f_ba"]) > 1e-12: bad.append("fidelity not symmetric")
        if abs(math.cos(g["d_ab"]) ** 2 - g["f_ab"]) > 1e-9: bad.append("cos^2(fs_dist) differs from the fidelity")
        if g["d_ac"] > g["d_ab"] + g["d_bc"] + 1e-7: bad.append("triangle inequality violated: d(a,c)=%r > d(a,b)+d(b,c)=%r" % (g["d_ac"], g["d_ab"] + g["d_bc"]))
        if abs(g["f_za_b"] - g["f_ab"]) > 1e-11: bad.append("fidelity changed under a complex scalar multiple of a (phase / ray invariance)")
        if abs(g["f_za_a"] - 1) > 1e-11 or g["d_za_a"] > 1e-5: bad.append("states on the same ray: fidelity %r, distance %r" % (g["f_za_a"], g["d_za_a"]))
    if bad:
        ctx.violations.append(("Fubini-Study metrics: " + bad[0], {"case": c, "brief": brief(c), "all": bad[:5], "values": g}))
    else:
        stats["metrics_ok"] += 1

def run_cases(ctx, cases):
    results = run_harness(cases, nproc=8)
    terms, idx = [], []
    for i, (c, r) in enumerate(zip(cases, results)):
        if c["mode"] in ("tensor3", "metrics") or r["r"] not in ("ok", "err", "panic"): continue
        t = coq_term(c, r)
        if t: terms.append(t); idx.append(i)
    outs = coq_eval(ctx, IMPORTS, terms)
    codes = [None] * len(cases)
    for i, o in zip(idx, outs):
        codes[i] = parseN(o)
    return results, codes

def judge(ctx, cases, results, codes):
    stats = {"class_agrees": 0, "model_close": 0, "model_equal": 0, "metrics_ok": 0, "assoc_ok": 0, "err": 0, "panic_documented": 0}
    for c, r, code in zip(cases, results, codes):
        b = brief(c)
        if r["r"] == "crash":
            ctx.violations.append(("process crashed: %s" % r.get("stderr", ""), {"case": c, "brief": b})); continue
        if c["mode"] == "metrics":
            if r["r"] != "ok": ctx.violations.append(("metrics call panicked: %s" % r.get("msg"), {"case": c, "brief": b}))
            else: judge_metrics(ctx, c, r, stats)
            continue
        if c["mode"] == "tensor3":
            l, rr = r.get("left", {}), r.get("right", {})
            if l.get("r") == "ok" and rr.get("r") == "ok" and l["nq"] == rr["nq"] and \
               all(abs(bits2float(x) - bits2float(y)) <= 1e-12 for x, y in zip(l["v"], rr["v"])):
                stats["assoc_ok"] += 1
            else:
                ctx.violations.append(("tensor product not associative: (a x b) x c vs a x (b x c)", {"case": c, "brief": b, "left": l.get("r"), "right": rr.get("r"), "left_e": l.get("e"), "right_e": rr.get("e")}))
            continue
        if r["r"] == "err": stats["err"] += 1
        if code is None: continue
        for bit, nm in ((1, "class_agrees"), (2, "model_close"), (4, "model_equal")):
            if code & bit: stats[nm] += 1
        if r["r"] == "panic" and (code & 1): stats["panic_documented"] += 1
        if not (code & 1):
            ctx.violations.append(("outcome (Ok/Err/Panic) differs from the specified one [%s]: impl %s %s" % (c["mode"], r["r"], r.get("e", r.get("msg", ""))), {"case": c, "brief": b}))
        elif not (code & 2) or not (code & 8):
            ctx.violations.append(("result differs from the specified value beyond 1e-12 [%s]" % c["mode"], {"case": c, "brief": b, "verdict_bits": code}))
    return stats

def run(ctx):
    proof_ok = proof_check(ctx)
    if ctx.thorough() and proof_ok:
        coqchk(ctx)
    cases = gen_cases(ctx)
    results, codes = run_cases(ctx, cases)
    stats = judge(ctx, cases, results, codes)
    ctx.broken = ctx.broken[:5]
    modes = {}
    for c in cases: modes[c["mode"]] = modes.get(c["mode"], 0) + 1
    return finish(ctx, trusted=TRUSTED, evaluations=len(cases), nontrivial=len(cases),
                  rule="every constructor at every size 0..12(14) incl. boundary indices and all Hartree-Fock (e,o) up to 10 orbitals; State::new on normalised / un-normalised / "
                       "bad-length vectors; tensor products for all (n1,n2) up to 10(13) qubits (both sides of the 64-amplitude threshold), un-normalised operands, triples for "
                       "associativity; inner product / normalise / fidelity to 9(12) qubits incl. zero and tiny/huge vectors; metric identities on random triples with a random "
                       "complex multiple; every arithmetic operator incl. the documented panics",
                  samples=[brief(c) for c in cases[:2]], extra={"verdict_counts": stats, "cases_by_mode": modes})

def replay(ctx, path):
    body = json.load(open(path))
    case = body["replay"].get("case")
    if not case:
        print("replay file carries no concrete case:", body["what"]); return 1
    results, codes = run_cases(ctx, [case])
    n0 = len(ctx.violations)
    judge(ctx, [case], results, codes)
    print(json.dumps({"brief": brief(case), "impl": results[0]["r"], "verdict_bits": codes[0], "violations": [w for w, _ in ctx.violations[n0:]]}, indent=1))
    return 1 if len(ctx.violations) > n0 else 0
