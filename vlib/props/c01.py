"""C01: every gate acts as its defining unitary on the targets, gated by the controls."""
from ..common import *
from ..gatecases import *

TRUSTED = [
    "Coq 8.16.1 kernel; vm_compute (primitive binary64 floats only to RUN model and Spec on cases)",
    "hand-written model Model/Gates.v tied to operator.rs by this correspondence run (harness + in-Coq verdict)",
    "libm cos/sin values are inputs computed by the harness; rounding is not modelled (1e-12 tolerance)",
    "harness crate /verif/harness and the case generator; OpenCL branch is C17",
    "registers of 12..16 qubits: the crate is compared with a direct embedding of the defining matrix written in the harness (Rust), outside Coq - the model's evaluation is quadratic in the vector length",
]

def gen_cases(ctx):
    rng = ctx.rng
    cases = []
    nmax = 4
    # exhaustive small scope: every placement, both CPU paths (path forced by the threshold hook)
    for n in range(1, nmax + 1):
        for kind in KINDS:
            for (ts, cs) in placements(n, kind):
                for thr in (10, 1):
                    style = rng.choice(["generic", "generic", "normalised", "spike"])
                    cs2 = list(cs)
                    rng.shuffle(cs2)
                    cases.append(mk_case(kind, rand_params(rng, kind, special=(rng.random() < 0.1)), n, ts, cs2, rand_vec(rng, n, style), thr))
    # special-value sweep: every special angle (multiples of pi/2, 2pi, 4pi, tiny, huge, -0.0) in every parameter
    # position of every parametrised gate, uncontrolled and controlled, both paths
    for kind in NPARAMS:
        np_ = NPARAMS[kind]
        for pos in range(np_):
            for ang in SPECIAL_ANGLES:
                for n in (2, 3):
                    pls = placements(n, kind)
                    unc = [p for p in pls if not p[1]]
                    con = [p for p in pls if p[1]]
                    for (ts, cs) in ([rng.choice(unc)] if unc else []) + ([rng.choice(con)] if con else []):
                        params = rand_params(rng, kind)
                        params[pos] = float2bits(ang)
                        cases.append(mk_case(kind, params, n, ts, list(cs), rand_vec(rng, n, "generic"), rng.choice([10, 1])))
    # sampled: 5..8 qubits both paths, real threshold 9 vs 10 without override
    big = [(5, 40), (6, 30), (7, 20), (8, 12)] if not ctx.thorough() else [(5, 200), (6, 120), (7, 80), (8, 60)]
    for n, cnt in big:
        for _ in range(cnt):
            kind = rng.choice(KINDS)
            pl = placements(n, kind)
            ts, cs = rng.choice(pl)
            if len(cs) > 3 and rng.random() < 0.7:
                cs = rng.sample(cs, rng.randrange(0, 3))
            cases.append(mk_case(kind, rand_params(rng, kind), n, ts, cs, rand_vec(rng, n, "generic"), rng.choice([10, 1])))
    # the same operator, targets and controls applied first to registers of other sizes on the same thread (a sweep over sizes), on both paths
    for kind in KINDS:
        for n in (3, 4):
            pl = placements(n, kind)
            ts, cs = rng.choice(pl)
            for thr in (10, 1):
                cases.append(mk_case(kind, rand_params(rng, kind), n, list(ts), list(cs), rand_vec(rng, n, "generic"), thr))
                cases[-1]["warm_sizes"] = [n + 1, n + 2] if rng.random() < 0.5 else [n + 2, max(n - 1, max(list(ts) + list(cs)) + 1)]
    # tiny / mixed-magnitude amplitudes (a gate is linear: nothing may be "skipped as zero"), and a control listed twice
    # (the simulator accepts it as the same control), on both paths
    for kind in KINDS:
        for n in (3, 4):
            pl = placements(n, kind)
            unc = [p for p in pl if not p[1]]; conp = [p for p in pl if p[1]]
            for style in ("tiny", "mixed"):
                for group in (unc, conp):                          # an uncontrolled and a controlled placement each
                    if not group: continue
                    ts, cs = rng.choice(group)
                    for thr in (10, 1):
                        cases.append(mk_case(kind, rand_params(rng, kind), n, list(ts), list(cs), rand_vec(rng, n, style), thr))
            if kind not in ("CNOT", "Toffoli"):
                con = [p for p in pl if p[1]]
                if con:
                    ts, cs = rng.choice(con)
                    cs = list(cs) + [rng.choice(list(cs))]
                    rng.shuffle(cs)
                    for thr in (10, 1):
                        cases.append(mk_case(kind, rand_params(rng, kind), n, list(ts), cs, rand_vec(rng, n, "generic"), thr))
    # structured inputs: exact 2x2 unitaries of special shape (diagonal with U00 != 1, anti-diagonal, real), with and without a
    # control, and vectors with exact zeros / purely real / purely imaginary amplitudes for every kind, on both paths
    for params in structured_unitaries(rng):
        for n in (2, 3):
            pl = placements(n, "U2")
            unc = [p for p in pl if not p[1]]; con = [p for p in pl if p[1]]
            for (ts, cs) in (rng.choice(unc), rng.choice(con)):
                thr = rng.choice([10, 1])
                cases.append(mk_case("U2", params, n, list(ts), list(cs), rand_vec(rng, n, rng.choice(["generic", "axis"])), thr))
    for kind in KINDS:
        for n in (2, 3, 4):
            pl = placements(n, kind)
            if not pl: continue
            for thr in (10, 1):
                ts, cs = rng.choice(pl)
                cases.append(mk_case(kind, rand_params(rng, kind), n, list(ts), list(cs), rand_vec(rng, n, "axis"), thr))
    # the rayon path inside pools whose size is not a power of two (a result must not depend on the worker count)
    for kind in KINDS:
        for n in (4, 5, 6):
            pl = placements(n, kind)
            unc = [p for p in pl if not p[1]]
            con = [p for p in pl if 1 <= len(p[1]) <= 2]
            picks = (unc if n == 4 else [rng.choice(unc)] if unc else []) + ([rng.choice(con)] if con else [])
            for ts, cs in picks:                       # n = 4: every uncontrolled placement (every target)
                for pool in ((3, 5) if n == 4 else (rng.choice([3, 5, 6, 7]),)):
                    c = mk_case(kind, rand_params(rng, kind), n, list(ts), list(cs), rand_vec(rng, n, "generic"), 1)
                    c["pool"] = pool
                    cases.append(c)
    # registers at or above the OpenCL size threshold (lowered through the hook, so that the model can still be evaluated): in a
    # build without the `gpu` feature the dispatch `size >= threshold && gpu_enabled` must fall through to the CPU paths
    for kind in KINDS:
        for n in (3, 4):
            pl = placements(n, kind)
            if not pl: continue
            for thr in (10, 1):
                ts, cs = rng.choice(pl)
                c = mk_case(kind, rand_params(rng, kind), n, list(ts), list(cs), rand_vec(rng, n, "generic"), thr)
                c["ocl"] = rng.choice([0, 2, n])
                cases.append(c)
    real = [(9, 6), (10, 6)] if not ctx.thorough() else [(9, 20), (10, 20), (11, 10), (12, 6)]
    for n, cnt in real:
        for _ in range(cnt):
            kind = rng.choice(KINDS)
            ts, cs = rng.choice(placements(n, kind)) if n <= 6 else (None, None)
            if ts is None:
                qs = list(range(n)); rng.shuffle(qs)
                if kind == "SWAP": ts, rest = qs[:2], qs[2:]
                elif kind == "Match":
                    t = rng.randrange(n - 1); ts = [t]; rest = [q for q in range(n) if q not in (t, t + 1)]
                else: ts, rest = qs[:1], qs[1:]
                k = 1 if kind == "CNOT" else 2 if kind == "Toffoli" else rng.randrange(0, 3)
                cs = rng.sample(rest, k)
            cases.append(mk_case(kind, rand_params(rng, kind), n, ts, cs, rand_vec(rng, n, "generic"), 10))
    return cases

def gen_big(ctx):
    """registers of 12..15 (16) qubits: the crate against the harness' direct embedding of the defining matrix (not evaluated in Coq)"""
    rng = ctx.rng
    out = []
    sizes = (12, 13, 14) if not ctx.thorough() else (12, 13, 14, 15, 16)
    for kind in KINDS:
        for n in sizes:
            for hi_role in ("target", "control", "low"):
                top = rng.choice([n - 1, n - 2, 11])
                qs = [q for q in range(n) if q != top]; rng.shuffle(qs)
                if kind == "SWAP": ts = [top, qs[0]] if hi_role == "target" else [qs[0], qs[1]]
                elif kind == "Match":
                    t = top - 1 if hi_role == "target" else rng.randrange(0, 6)
                    ts = [t]
                else: ts = [top] if hi_role == "target" else [qs[0]]
                used = set(ts) | ({ts[0] + 1} if kind == "Match" else set())
                free = [q for q in range(n) if q not in used]
                k = 1 if kind == "CNOT" else 2 if kind == "Toffoli" else rng.choice([0, 1, 2])
                cs = rng.sample(free, k)
                if hi_role == "control" and k and top in free: cs[0] = top; cs = list(dict.fromkeys(cs))
                if kind == "Toffoli" and len(cs) < 2: cs = rng.sample(free, 2)
                if rng.random() < 0.5 and len(ts) == 2: ts = ts[::-1]
                c = {"op": "gate_big", "kind": kind, "params": rand_params(rng, kind), "n": n, "ts": ts, "cs": cs, "seed": rng.randrange(1 << 30)}
                if rng.random() < 0.3: c["pool"] = rng.choice([3, 5, 6])
                out.append(c)
    return out

def judge_big(ctx, cases, results, stats):
    st = {"cases": len(cases), "ok": 0}
    for c, r in zip(cases, results):
        d = {"kind": c["kind"], "n": c["n"], "targets": c["ts"], "controls": c["cs"], "params": [bits2float(p) for p in c["params"]], "pool": c.get("pool")}
        if r.get("r") == "ok" and r.get("maxdiff") is not None and r["maxdiff"] == r["maxdiff"] and r["maxdiff"] <= 1e-12 and r["len"] == (1 << c["n"]) and r["nq"] == c["n"]:
            st["ok"] += 1
        elif r.get("r") == "ctor_err": continue
        else:
            ctx.violations.append(("on a %d-qubit register the result differs from the embedded defining matrix (amplitude %s: %s, expected %s; max difference %s)%s" % (
                c["n"], r.get("at"), r.get("impl_at"), r.get("want_at"), r.get("maxdiff"), "" if r.get("r") == "ok" else " - outcome %s %s" % (r.get("r"), r.get("e", r.get("msg", "")))),
                {"big_case": c, "describe": d, "impl": {k: r.get(k) for k in ("r", "e", "msg", "maxdiff", "at")}}))
    stats["large_registers"] = st

def judge(ctx, cases, results, codes):
    """returns (n_ok, stats); records violations"""
    stats = {"agree_class": 0, "model_close": 0, "model_exact": 0, "spec_close": 0, "ctor_err": 0}
    known = load_known()
    for case, res, code in zip(cases, results, codes):
        if res["r"] == "ctor_err":
            stats["ctor_err"] += 1
            continue
        if code is None:
            continue
        for bit, name in ((1, "agree_class"), (2, "model_close"), (4, "model_exact"), (8, "spec_close")):
            if code & bit:
                stats[name] += 1
        d = describe(case)
        if res["r"] == "panic" or res["r"] == "crash":
            ctx.violations.append(("gate application panicked on valid arguments: %s" % res.get("msg", ""), {"case": case, "impl": res, "describe": d}))
        elif res["r"] == "err":
            ctx.violations.append(("valid gate application returned an error %s" % res.get("e"), {"case": case, "impl": res, "describe": d}))
        elif not (code & 8):
            ctx.violations.append(("result differs from the embedded defining matrix (Spec) beyond 1e-12", {"case": case, "impl": res, "describe": d}))
        elif not res.get("input_unchanged", True):
            ctx.violations.append(("input state was modified", {"case": case, "describe": d}))
        elif res.get("nq") != case["n"]:
            ctx.violations.append(("qubit count changed", {"case": case, "impl_nq": res.get("nq"), "describe": d}))
        elif not (code & 2) or not (code & 1):
            ctx.broken.append("correspondence model-vs-impl differs (Spec still met) on %s" % json.dumps(d))
    return stats

def run_cases(ctx, cases):
    return run_gate_cases(ctx, cases)

def run(ctx):
    proof_ok = proof_check(ctx)
    if ctx.thorough() and proof_ok:
        coqchk(ctx)
    cases = gen_cases(ctx)
    results, codes = run_cases(ctx, cases)
    stats = judge(ctx, cases, results, codes)
    big = gen_big(ctx)
    judge_big(ctx, big, run_harness(big, nproc=8), stats)
    dist = {}
    for c in cases:
        key = "%s/n%d/%s" % (c["kind"], c["n"], "par" if c["n"] >= c["thr"] else "seq")
        dist[key] = dist.get(key, 0) + 1
    distinct = len({json.dumps([c["kind"], c["n"], c["ts"], sorted(c["cs"]), c["n"] >= c["thr"]]) for c in cases})
    by_kind = {}
    for c in cases:
        by_kind[c["kind"]] = by_kind.get(c["kind"], 0) + 1
    path_hits = {"par": sum(1 for r in results if r.get("hits", [0, 0])[0] > 0), "seq": sum(1 for r in results if r.get("hits", [0, 0])[1] > 0)}
    ctx.broken = ctx.broken[:5]
    return finish(ctx, trusted=TRUSTED, evaluations=len(cases), nontrivial=distinct,
                  rule="exhaustive placements (target x control subset, shuffled control order) for n=1..4 x 20 gate kinds x {seq,par}; "
                       "random placements n=5..8 both paths; n=9..10(12) on the real threshold; registers of 12..14(16) qubits against the harness' direct embedding of the defining matrix (not in Coq); distinct = distinct (kind,n,targets,controls,path); "
                       "all are non-trivial (random complex amplitudes)",
                  samples=[dict(describe(c), verdict_bits=k) for c, k in list(zip(cases, codes))[:3] + list(zip(cases, codes))[-2:]],
                  extra={"verdict_counts": stats, "cases_by_kind": by_kind, "threshold_hook_branch_hits": path_hits,
                         "max_qubits": max(c["n"] for c in cases)})

def replay(ctx, path):
    body = json.load(open(path))
    if body["replay"].get("big_case"):
        r = run_harness([body["replay"]["big_case"]])[0]
        print(json.dumps({"describe": body["replay"].get("describe"), "impl": r}, indent=1))
        return 0 if (r.get("r") == "ok" and r.get("maxdiff", 1) <= 1e-12) else 1
    case = body["replay"].get("case")
    if not case:
        print("replay file carries no concrete case:", body["what"]); return 1
    results, codes = run_cases(ctx, [case])
    print(json.dumps({"describe": describe(case), "impl": results[0]["r"], "verdict_bits": codes[0]}, indent=1))
    return 0 if (codes[0] is not None and codes[0] & 8 and results[0]["r"] == "ok") else 1
