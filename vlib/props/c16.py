"""C16: Subroutine::qft is the DFT on the chosen register; Subroutine::iqft inverts it."""
import re
from ..common import *
from ..gatecases import rand_vec

TRUSTED = [
    "Coq 8.16.1 kernel; vm_compute only to RUN the model, the DFT reference and the comparisons on the cases",
    "hand-written model of the two loops (Model/Qft.v) tied to src/subroutine.rs by comparing the implementation's gate list "
    "(Debug rendering of every Gate, angles read back exactly) with the model's, for every case, and the model's execution with the implementation's, bit for bit",
    "theorem hypotheses: ring laws, h*h+h*h=1, cos^2+sin^2=1 (inverse theorem); the DFT identity on floats is measured (1e-12) against "
    "roots of unity computed inside Coq by half-angle recurrences, independent of libm",
    "harness crate /verif/harness (op qft); libm cos/sin of pi/2^k are inputs computed by the harness",
]
IMPORTS = ("From Coq Require Import Floats.\nFrom QI Require Import Base.Scalar Model.Outcome Model.Gates Model.OpSeq Model.Qft Run.FloatInst Run.EvalGates Run.EvalQft.")

GATE_RE = re.compile(r"^Operator\((\w+)(?: \{ angle: ([^ ]+) \})?, \[([0-9, ]*)\], \[([0-9, ]*)\]\)$")

def parse_gate(s):
    m = GATE_RE.match(s)
    if not m:
        return "IOther"
    kind, angle, ts, cs = m.groups()
    ts = [int(x) for x in ts.split(",") if x.strip()]
    cs = [int(x) for x in cs.split(",") if x.strip()]
    if kind == "Hadamard" and len(ts) == 1 and not cs:
        return "(IH %s)" % cqN(ts[0])
    if kind == "PhaseShift" and angle is not None:
        return "(IP %s %s %s)" % (cqf(float2bits(float(angle))), cqNs(ts), cqNs(cs))
    if kind == "SWAP":
        return "(ISW %s %s)" % (cqNs(ts), cqNs(cs))
    return "IOther"

def gen_cases(ctx):
    rng = ctx.rng
    cases = []
    def add(n, qs, inverse, ncols=None, nins=2, thr=None):
        dim = 1 << n
        cols = list(range(dim)) if ncols is None or ncols >= dim else sorted(rng.sample(range(dim), ncols))
        ins = [rand_vec(rng, n, rng.choice(["generic", "normalised"])) for _ in range(nins)]
        if n <= 6:      # superpositions with exact zeros and purely real / imaginary amplitudes, e.g. (|00> + i|11>)/sqrt 2
            ins.append(rand_vec(rng, n, "axis"))
            ins.append(rand_vec(rng, n, "dominant"))   # nearly a basis state: control branches of tiny, non-zero weight
            if n >= 2:
                v = [0.0] * (2 << n); v[0] = 0.7071067811865476; v[(2 << n) - 1] = 0.7071067811865476
                ins.append([float2bits(x) for x in v])
        cases.append({"op": "qft", "n": n, "qs": qs, "inverse": inverse, "cols": cols, "ins": ins,
                      "thr": thr if thr is not None else rng.choice([10, 10, 1])})
    if not ctx.thorough():
        plan = {1: 2, 2: 3, 3: 3, 4: 3, 5: 2, 6: 1}
        big = [(7, 7, 24), (8, 8, 16), (9, 8, 6), (8, 3, 16)]
    else:
        plan = {1: 4, 2: 10, 3: 12, 4: 12, 5: 8, 6: 5, 7: 2}
        big = [(8, 8, None), (8, 7, 64), (9, 8, 32), (10, 8, 12), (10, 5, 12), (11, 8, 4)]
    for n, reps in plan.items():
        for m in range(0, n + 1):
            for _ in range(reps if m > 0 else 1):
                qs = rng.sample(range(n), m)
                for inverse in (False, True):
                    add(n, qs, inverse)
    # natural and reversed orders of the whole register
    for n in range(1, 7):
        for qs in (list(range(n)), list(reversed(range(n)))):
            for inverse in (False, True):
                add(n, qs, inverse)
    # the same inside rayon pools whose size is not a power of two (rayon path forced), and with the OpenCL size threshold lowered
    # (a build without the `gpu` feature must stay on the CPU paths whatever the register size)
    for n in (3, 4, 5):
        for _ in range(2):
            qs = rng.sample(range(n), rng.randrange(2, n + 1))
            for inverse in (False, True):
                add(n, qs, inverse, thr=1); cases[-1]["pool"] = rng.choice([3, 5, 6, 7])
                add(n, qs, inverse); cases[-1]["ocl"] = rng.choice([0, 2])
    for n, m, ncols in big:
        qs = rng.sample(range(n), m)
        for inverse in (False, True):
            add(n, qs, inverse, ncols=ncols, nins=1)
    # malformed stream: repeated or out-of-range qubits (the property does not cover them; outcome class only)
    for _ in range(6 if not ctx.thorough() else 30):
        n = rng.randrange(1, 5)
        qs = [rng.randrange(n + 2) for _ in range(rng.randrange(1, 5))]
        if len(set(qs)) == len(qs) and all(q < n for q in qs):
            qs = qs + [qs[0]]
        cases.append({"op": "qft", "n": n, "qs": qs, "inverse": rng.random() < 0.5, "cols": [], "ins": [rand_vec(rng, n, "generic")], "thr": 10, "malformed": True})
    return cases

def coq_term(case, res):
    ok = res["r"] == "ok"
    igs = "[%s]" % ";".join(parse_gate(g) for g in res.get("gates", []))
    cp = "[%s]" % ";".join(cqc(c, s) for c, s in res["trig"])
    outs = "[%s]" % ";".join(cqvec(o) for o in res.get("outs", [])) if ok else "[]"
    cols = "[%s]" % ";".join("(%s, %s)" % (cqN(a), cqvec(col)) for a, col in res.get("cols", [])) if ok else "[]"
    return "check_qft_case %s %s %s %s %s %s [%s] %s %s %s" % (
        cqbool(case["n"] >= case["thr"]), cqbool(case["inverse"]), cqN(case["n"]), cqNs(case["qs"]), cp, igs,
        ";".join(cqvec(v) for v in case["ins"]), outs, cols, cqbool(ok))

def brief(case):
    return {"n": case["n"], "qubits": case["qs"], "which": "iqft" if case["inverse"] else "qft",
            "path": "par" if case["n"] >= case["thr"] else "seq", "columns": len(case["cols"]), "inputs": len(case["ins"])}

def vec_of(flat):
    return [complex(bits2float(flat[2 * i]), bits2float(flat[2 * i + 1])) for i in range(len(flat) // 2)]

def round_trip_error(case, res):
    worst = 0.0
    for key in ("round", "round_one"):
        if len(res.get(key, [])) != len(case["ins"]):
            return float("inf")
        for v, w in zip(case["ins"], res[key]):
            a, b = vec_of(v), vec_of(w)
            scale = max(1.0, max(abs(z) for z in a))
            worst = max(worst, max(abs(x - y) for x, y in zip(a, b)) / scale)
    return worst

def find_bad_column(ctx, case, res):
    """which basis column differs from the DFT (for the replay): evaluate the columns one at a time"""
    terms = []
    for a, col in res["cols"]:
        r1 = dict(res, cols=[[a, col]], outs=[], gates=res["gates"])
        c1 = dict(case, ins=[])
        terms.append(coq_term(c1, r1))
    outs = coq_eval(ctx, IMPORTS, terms, tag="cols")
    for (a, col), o in zip(res["cols"], outs):
        if not (parseN(o) & 4):
            return a
    return None

def neg_trig_ok(res):
    return all(cn == c and bits2float(sn) == -bits2float(s) for (c, s), (cn, sn) in zip(res["trig"], res["trig_neg"]))

def run(ctx):
    proof_ok = proof_check(ctx)
    if ctx.thorough() and proof_ok:
        coqchk(ctx)
    cases = gen_cases(ctx)
    results = run_harness(cases, nproc=8)
    terms, idx = [], []
    stats = {"cases": len(cases), "gate_list_equal": 0, "exec_exact": 0, "dft_close": 0, "roots_close": 0, "class_agrees": 0,
             "round_trip_ok": 0, "malformed": 0, "malformed_rejected": 0, "columns_checked": 0}
    for i, (c, r) in enumerate(zip(cases, results)):
        if c.get("malformed"):
            stats["malformed"] += 1
            if r["r"] in ("build_err", "err"):
                stats["malformed_rejected"] += 1
            if r["r"] in ("ok", "build_err", "err"):
                terms.append(coq_term(c, r)); idx.append(i)
            continue
        if r["r"] != "ok":
            ctx.violations.append(("the subroutine could not be executed on distinct in-range qubits: %s" % (r.get("e") or r.get("errs") or r.get("stderr")),
                                   {"case": c, "brief": brief(c)}))
            continue
        terms.append(coq_term(c, r)); idx.append(i)
    outs = coq_eval(ctx, IMPORTS, terms)
    for i, o in zip(idx, outs):
        c, r = cases[i], results[i]
        code = parseN(o)
        if c.get("malformed"):
            if code & 16: stats["class_agrees"] += 1
            else: ctx.broken.append("outcome class differs from the model on malformed qubit list %s" % json.dumps(brief(c)))
            continue
        for bit, nm in ((1, "gate_list_equal"), (2, "exec_exact"), (4, "dft_close"), (8, "roots_close"), (16, "class_agrees")):
            if code & bit: stats[nm] += 1
        stats["columns_checked"] += len(c["cols"])
        rt = round_trip_error(c, r)
        if rt <= 1e-12: stats["round_trip_ok"] += 1
        if not (code & 4):
            a = find_bad_column(ctx, c, r) if len(ctx.violations) < 2 else None
            ctx.violations.append(("%s on qubits %s of %d: column of basis state %s differs from the DFT" % ("iqft" if c["inverse"] else "qft", c["qs"], c["n"], a),
                                   {"case": dict(c, cols=[a] if a is not None else c["cols"], ins=[]), "brief": brief(c), "column": a, "verdict_bits": code}))
        elif rt > 1e-12:
            ctx.violations.append(("%s then %s on qubits %s of %d does not restore the input (max error %.3g)" % (
                "iqft" if c["inverse"] else "qft", "qft" if c["inverse"] else "iqft", c["qs"], c["n"], rt), {"case": c, "brief": brief(c), "round_trip_error": rt}))
        elif not (code & 1):
            ctx.broken.append("gate list differs from Model/Qft.v (matrix still the DFT) on %s: %s" % (json.dumps(brief(c)), r["gates"][:6]))
        elif not (code & 2) or not (code & 16):
            ctx.broken.append("execution differs from the model's (matrix still the DFT) on %s" % json.dumps(brief(c)))
        elif not (code & 8) or not neg_trig_ok(r):
            ctx.broken.append("libm cos/sin of pi/2^k differ from the roots computed in Coq, or cos/sin of the negated angle are not (c, -s)")
        elif not r["gates_same"] or not r["builder_same"]:
            ctx.broken.append("TryFrom<Subroutine> and CircuitBuilder::add_subroutine disagree on %s" % json.dumps(brief(c)))
    # registers of 12 (13) qubits, with listed qubits of index >= 11: a few columns against the DFT written out in the harness
    # (outside Coq: the model's evaluation is quadratic in the vector length)
    rng = ctx.rng
    bigs = []
    for n in ((12, 13) if not ctx.thorough() else (12, 13, 14, 15)):
        for inverse in (False, True):
            lows = rng.sample(range(0, 11), rng.randrange(1, 4))
            qs = [n - 1] + lows if rng.random() < 0.5 else lows + [n - 1, 11]
            qs = list(dict.fromkeys(qs)); rng.shuffle(qs)
            bigs.append({"op": "qft_big", "n": n, "qs": qs, "inverse": inverse, "cols": [0, (1 << n) - 1, rng.randrange(1 << n), rng.randrange(1 << n)]})
    bst = {"cases": len(bigs), "ok": 0}
    for c, r in zip(bigs, run_harness(bigs, nproc=8)):
        if r.get("r") == "ok" and r.get("maxdiff") == r.get("maxdiff") and r["maxdiff"] <= 1e-10: bst["ok"] += 1
        else:
            ctx.violations.append(("%s on qubits %s of a %d-qubit register: column of basis state %s differs from the DFT at index %s (max difference %s)%s" % (
                "iqft" if c["inverse"] else "qft", c["qs"], c["n"], r.get("col"), r.get("row"), r.get("maxdiff"), "" if r.get("r") == "ok" else " - %s %s" % (r.get("r"), r.get("e", ""))),
                {"big_case": c, "impl": r}))
    stats["large_registers"] = bst
    ctx.broken = ctx.broken[:5]
    sizes = {}
    for c in cases:
        if not c.get("malformed"):
            k = "n%d" % c["n"]; sizes.setdefault(k, set()).add(len(c["qs"]))
    return finish(ctx, trusted=TRUSTED, evaluations=len(cases), nontrivial=len(idx) - stats["malformed"],
                  rule="Subroutine::qft and ::iqft on random ordered subsets (every size 0..n) of registers of 1..%d qubits, both CPU paths: "
                       "gate list vs model (kinds, roles, order, exact angles), execution vs model (exact), every requested basis column vs the DFT "
                       "computed in Coq (1e-12), both compositions vs identity; plus a malformed stream (outcome class only)" % max(c["n"] for c in cases),
                  samples=[brief(c) for c in cases[:2]],
                  extra={"verdict_counts": stats, "subset_sizes_by_n": {k: sorted(v) for k, v in sizes.items()}})

def replay(ctx, path):
    body = json.load(open(path))
    if body["replay"].get("big_case"):
        r = run_harness([body["replay"]["big_case"]])[0]
        print(json.dumps({"case": body["replay"]["big_case"], "impl": r}))
        return 0 if (r.get("r") == "ok" and r.get("maxdiff", 1) <= 1e-10) else 1
    case = body["replay"].get("case")
    if not case:
        print("replay file carries no concrete case:", body["what"]); return 1
    if not case.get("ins"):
        case = dict(case, ins=[])
    r = run_harness([case])[0]
    if r["r"] != "ok":
        print(json.dumps({"brief": brief(case), "impl": r})); return 1
    code = parseN(coq_eval(ctx, IMPORTS, [coq_term(case, r)])[0])
    rt = round_trip_error(case, r)
    print(json.dumps({"brief": brief(case), "verdict_bits": code, "round_trip_error": rt}, indent=1))
    return 0 if (code & 4 and rt <= 1e-12) else 1
