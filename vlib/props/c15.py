"""C15: parametric gates follow their shared parameters; parameter access is atomic."""
from ..common import *
import math
from ..gatecases import rand_vec

TRUSTED = [
    "Coq 8.16.1 kernel; vm_compute to RUN the parameter-store / builder model on the histories",
    "std::sync::Mutex provides mutual exclusion and the memory model makes guarded accesses sequentially consistent: trusted; the model cannot exhibit a hardware-level torn read",
    "Arc<Mutex<..>> sharing is modelled as cell identities (clone = same cell, deep_clone = fresh cell); tied to parameter.rs / parametric_gate.rs / circuit.rs by this correspondence run",
    "libm cos/sin of the current parameter values are supplied by the harness for every value occurring in the history; a wall-clock stress run samples thread interleavings",
]
IMPORTS = "From QI Require Import Base.Scalar Model.Outcome Model.Gates Model.OpSeq Model.Param Run.FloatInst Run.EvalGates Run.EvalParam."
ARITY = {"RX": 1, "RY": 1, "RZ": 1, "P": 1, "RyPhase": 2, "RyPhaseDag": 2, "Match": 3}
KCOQ = {"RX": "KRX", "RY": "KRY", "RZ": "KRZ", "P": "KP", "RyPhase": "KRyPhase", "RyPhaseDag": "KRyPhaseDag", "Match": "KMatch"}

def gen_history(rng, n, length):
    ops, hs, ncirc = [], [], 0          # hs: arity per handle
    pend = 0
    def vals(k): return [float2bits(rng.choice([rng.uniform(-3.2, 3.2), rng.uniform(-3.2, 3.2), rng.uniform(6.4, 12.4), -rng.uniform(6.4, 12.4), rng.choice([0.0, -0.0, math.pi, -math.pi, 2 * math.pi])])) for _ in range(k)]     # also beyond one turn, and exactly zero / pi in single positions
    for k in (1, 2, 3):
        ops.append({"o": "new", "vals": vals(k)}); hs.append(k)
    for _ in range(length):
        c = rng.choice(["new", "set", "set", "set", "clone", "deep", "add", "add", "add", "add_multi", "build", "build", "build_final", "exec", "exec", "exec", "get", "export", "via_sub"])
        if c == "new":
            k = rng.choice([1, 1, 2, 3]); ops.append({"o": "new", "vals": vals(k)}); hs.append(k)
        elif c == "set":
            h = rng.randrange(len(hs)); ops.append({"o": "set", "h": h, "vals": vals(hs[h])})
        elif c in ("clone", "deep"):
            h = rng.randrange(len(hs)); ops.append({"o": c, "h": h}); hs.append(hs[h])
        elif c == "get":
            ops.append({"o": "get", "h": rng.randrange(len(hs))})
        elif c == "add":
            kind = rng.choice(list(ARITY))
            cand = [i for i, a in enumerate(hs) if a == ARITY[kind]]
            qs = list(range(n)); rng.shuffle(qs)
            if kind == "Match":
                if n < 2: continue
                t = rng.randrange(n - 1); rest = [q for q in range(n) if q not in (t, t + 1)]
            else:
                t, rest = qs[0], qs[1:]
            cs = rng.sample(rest, rng.randrange(0, min(2, len(rest)) + 1))
            ops.append({"o": "add", "kind": kind, "h": rng.choice(cand), "t": t, "cs": cs}); pend += 1
        elif c == "add_multi":
            kind = rng.choice([k for k in ARITY if k != "Match"])
            cand = [i for i, a in enumerate(hs) if a == ARITY[kind]]
            m = rng.randrange(0, min(n, 3) + 1)
            ts = rng.sample(range(n), m)
            rest = [q for q in range(n) if q not in ts]
            cs = rng.sample(rest, rng.randrange(0, min(2, len(rest)) + 1))
            nh = m if rng.random() < 0.7 else max(0, m + rng.choice([-1, 1, 2]))
            ops.append({"o": "add_multi", "kind": kind, "hs": [rng.choice(cand) for _ in range(nh)], "ts": ts, "cs": cs})
        elif c == "via_sub":
            ops.append({"o": "via_sub"})
        elif c in ("build", "build_final"):
            ops.append({"o": c}); ncirc += 1
        elif c == "exec" and ncirc:
            ops.append({"o": "exec", "c": rng.randrange(ncirc)})
        elif c == "export" and ncirc:
            ops.append({"o": "export", "c": rng.randrange(ncirc)})
    # every built circuit is executed once more at the very end (after all updates)
    for ci in range(ncirc): ops.append({"o": "exec", "c": ci})
    return ops

def gen_cases(ctx):
    rng = ctx.rng
    cases = []
    for _ in range(120 if not ctx.thorough() else 600):
        n = rng.randrange(1, 5)
        cases.append({"op": "param", "mode": "history", "n": n, "v": rand_vec(rng, n, "normalised"), "ops": gen_history(rng, n, rng.randrange(4, 40 if not ctx.thorough() else 120)),
                      "thr": rng.choice([10, 1])})
    # a directed history per kind: build (clone) AND build_final circuits, set after building, then execute both
    for kind in ARITY:
        n = 3
        k = ARITY[kind]
        v0, v1 = [float2bits(0.3 + 0.1 * i) for i in range(k)], [float2bits(1.1 + 0.2 * i) for i in range(k)]
        ops = [{"o": "new", "vals": v0}, {"o": "clone", "h": 0}, {"o": "add", "kind": kind, "h": 1, "t": 0, "cs": []}, {"o": "build"}, {"o": "exec", "c": 0},
               {"o": "set", "h": 0, "vals": v1}, {"o": "exec", "c": 0}, {"o": "build_final"}, {"o": "deep", "h": 0}, {"o": "set", "h": 2, "vals": v0},
               {"o": "exec", "c": 0}, {"o": "exec", "c": 1}, {"o": "get", "h": 0}, {"o": "get", "h": 1}, {"o": "get", "h": 2}]
        cases.append({"op": "param", "mode": "history", "n": n, "v": rand_vec(rng, n, "normalised"), "ops": ops, "thr": 10})
    # every multi-gate builder form, plain and controlled, with four targets and four pairwise different parameters: gate i holds
    # parameter i (visible after updating one of them); and export - update - export of the SAME circuit object
    for kind in [k for k in ARITY if k != "Match"]:
        for cs in ([], [4]):
            k = ARITY[kind]
            ops = [{"o": "new", "vals": [float2bits(0.2 + 0.37 * i + 0.11 * j) for j in range(k)]} for i in range(4)]
            ts = [2, 0, 3, 1]
            ops += [{"o": "add_multi", "kind": kind, "hs": [0, 1, 2, 3], "ts": ts, "cs": cs}, {"o": "build"}, {"o": "exec", "c": 0}, {"o": "export", "c": 0},
                    {"o": "set", "h": 1, "vals": [float2bits(-1.3 + 0.2 * j) for j in range(k)]}, {"o": "exec", "c": 0}, {"o": "export", "c": 0},
                    {"o": "set", "h": 3, "vals": [float2bits(2.1 - 0.3 * j) for j in range(k)]}, {"o": "exec", "c": 0}, {"o": "export", "c": 0}]
            cases.append({"op": "param", "mode": "history", "n": 5, "v": rand_vec(rng, 5, "normalised"), "ops": ops, "thr": 10})
    # one position of the parameter block set EXACTLY to 0 / -0 / pi while the others stay generic (the start of a sweep): still the
    # gate of those values, in execution and in the exported text
    for kind in ARITY:
        k = ARITY[kind]
        for pos in range(k):
            for special in (0.0, -0.0, math.pi):
                base = [0.9 + 0.4 * j for j in range(k)]; sp = list(base); sp[pos] = special
                ops = [{"o": "new", "vals": [float2bits(x) for x in sp]}, {"o": "add", "kind": kind, "h": 0, "t": 0, "cs": []}, {"o": "add", "kind": kind, "h": 0, "t": 2 if kind != "Match" else 2, "cs": [4]},
                       {"o": "build"}, {"o": "exec", "c": 0}, {"o": "export", "c": 0}, {"o": "set", "h": 0, "vals": [float2bits(x) for x in base]}, {"o": "exec", "c": 0},
                       {"o": "set", "h": 0, "vals": [float2bits(x) for x in sp]}, {"o": "exec", "c": 0}, {"o": "export", "c": 0}]
                cases.append({"op": "param", "mode": "history", "n": 5, "v": rand_vec(rng, 5, "normalised"), "ops": ops, "thr": 10})
    # gates that reach the circuit through a subroutine (build_subroutine + add_subroutine) still follow their parameter
    for kind in ARITY:
        k = ARITY[kind]
        v0, v1 = [float2bits(0.35 + 0.2 * j) for j in range(k)], [float2bits(-1.2 + 0.45 * j) for j in range(k)]
        ops = [{"o": "new", "vals": v0}, {"o": "add", "kind": kind, "h": 0, "t": 0, "cs": []}, {"o": "via_sub"}, {"o": "add", "kind": kind, "h": 0, "t": 2, "cs": [4]},
               {"o": "build"}, {"o": "exec", "c": 0}, {"o": "set", "h": 0, "vals": v1}, {"o": "exec", "c": 0}, {"o": "export", "c": 0}, {"o": "via_sub"}, {"o": "build_final"},
               {"o": "set", "h": 0, "vals": v0}, {"o": "exec", "c": 1}, {"o": "exec", "c": 0}]
        cases.append({"op": "param", "mode": "history", "n": 5, "v": rand_vec(rng, 5, "normalised"), "ops": ops, "thr": 10})
    # values that are not numbers: set stores what it is given (NaN, +-inf, in any position), every alias reads it back, a deep copy does not
    nan, inf = float("nan"), float("inf")
    for k in (1, 2, 3):
        for pos in range(k):
            for bad in (nan, inf, -inf):
                v0 = [0.5 + 0.25 * j for j in range(k)]; v1 = [1.1 + 0.3 * j for j in range(k)]; v1[pos] = bad
                ops = [{"o": "new", "vals": [float2bits(x) for x in v0]}, {"o": "clone", "h": 0}, {"o": "deep", "h": 0},
                       {"o": "set", "h": 1, "vals": [float2bits(x) for x in v1]}, {"o": "get", "h": 0}, {"o": "get", "h": 1}, {"o": "get", "h": 2},
                       {"o": "set", "h": 0, "vals": [float2bits(x) for x in v0]}, {"o": "get", "h": 1}]
                cases.append({"op": "param", "mode": "history", "n": 2, "v": rand_vec(rng, 2, "normalised"), "ops": ops, "thr": 10})
    # a rejected multi-gate call (list too short / too long) must leave the builder as it was: build and run after the rejection,
    # then retry with a matching list on the same builder
    for kind in [k for k in ARITY if k != "Match"]:
        for cs in ([], [4]):
            for nh in (1, 2, 4, 5):
                k = ARITY[kind]
                ops = [{"o": "new", "vals": [float2bits(0.25 + 0.31 * i + 0.13 * j) for j in range(k)]} for i in range(5)]
                ops += [{"o": "add", "kind": kind, "h": 4, "t": 1, "cs": []},
                        {"o": "add_multi", "kind": kind, "hs": list(range(nh)), "ts": [2, 0, 3], "cs": cs}, {"o": "build"}, {"o": "exec", "c": 0}, {"o": "export", "c": 0},
                        {"o": "add_multi", "kind": kind, "hs": [0, 1, 2], "ts": [2, 0, 3], "cs": cs}, {"o": "build_final"}, {"o": "exec", "c": 1}, {"o": "exec", "c": 0}]
                cases.append({"op": "param", "mode": "history", "n": 5, "v": rand_vec(rng, 5, "normalised"), "ops": ops, "thr": 10})
    # one parametric gate with several targets (the public enum variant built directly): one concrete gate per target, all following
    # the one parameter
    for kind in [k for k in ARITY if k != "Match"]:
        for cs in ([], [4]):
            k = ARITY[kind]
            ops = [{"o": "new", "vals": [float2bits(0.45 + 0.2 * j) for j in range(k)]},
                   {"o": "add_raw", "kind": kind, "h": 0, "ts": [2, 0, 3], "cs": cs}, {"o": "build"}, {"o": "exec", "c": 0}, {"o": "export", "c": 0},
                   {"o": "set", "h": 0, "vals": [float2bits(-0.9 + 0.4 * j) for j in range(k)]}, {"o": "exec", "c": 0}, {"o": "export", "c": 0}, {"o": "build_final"}, {"o": "exec", "c": 1}]
            cases.append({"op": "param", "mode": "history", "n": 5, "v": rand_vec(rng, 5, "normalised"), "ops": ops, "thr": 10})
    for kind in ("RyPhase", "RyPhaseDag"):
        cases.append({"op": "param", "mode": "stress", "kind": kind, "a": [float2bits(0.7), float2bits(1.9)], "b": [float2bits(2.3), float2bits(-0.6)],
                      "writers": 2 if not ctx.thorough() else 4, "readers": 3 if not ctx.thorough() else 6, "millis": 700 if not ctx.thorough() else 4000})
    return cases

def cq_xop(o):
    fl = lambda xs: "[" + ";".join(cqf(x) for x in xs) + "]"
    k = o["o"]
    if k == "new": return "XOp (HNew %s)" % fl(o["vals"])
    if k == "set": return "XOp (HSet %s %s)" % (cqN(o["h"]), fl(o["vals"]))
    if k == "clone": return "XOp (HClone %s)" % cqN(o["h"])
    if k == "deep": return "XOp (HDeepClone %s)" % cqN(o["h"])
    if k == "add": return "XOp (HAdd %s %s %s %s)" % (KCOQ[o["kind"]], cqN(o["h"]), cqN(o["t"]), cqNs(o["cs"]))
    if k == "add_raw": return "XOp (HAddMulti %s %s %s %s)" % (KCOQ[o["kind"]], cqNs([o["h"]] * len(o["ts"])), cqNs(o["ts"]), cqNs(o["cs"]))
    if k == "add_multi": return "XOp (HAddMulti %s %s %s %s)" % (KCOQ[o["kind"]], cqNs(o["hs"]), cqNs(o["ts"]), cqNs(o["cs"]))
    if k == "build": return "XOp HBuild"
    if k == "build_final": return "XOp HBuildFinal"
    if k == "get": return "XGet %s" % cqN(o["h"])
    if k == "exec": return "XExec %s" % cqN(o["c"])
    raise ValueError(k)

def cq_obs(ob):
    if ob["k"] == "none": return "PNone"
    if ob["k"] == "vals": return "(PVals [%s])" % ";".join(cqf(x) for x in ob["vals"])
    if ob["k"] == "res": return "(PRes %s)" % cqbool(ob["ok"])
    if ob["k"] == "state": return "(PState %s %s)" % (cqbool(ob["r"] == "ok"), cqvec(ob["v"]) if ob["r"] == "ok" else "[]")
    raise ValueError(ob["k"])

def coq_term(c, r):
    tab = "[" + ";".join("(%s,(%s,%s,%s,%s))" % tuple(cqf(x) for x in e) for e in r["trig"]) + "]"
    keep = [i for i, o in enumerate(c["ops"]) if o["o"] not in ("export", "via_sub")]
    return "check_param_history %s %s %s %s [%s] [%s]" % (tab, cqbool(c["n"] >= c["thr"]), cqN(c["n"]), cqvec(c["v"]),
                                                             ";".join(cq_xop(c["ops"][i]) for i in keep), ";".join(cq_obs(r["obs"][i]) for i in keep))

def brief(c):
    if c["mode"] == "stress": return {"mode": "stress", "kind": c["kind"]}
    return {"mode": "history", "n": c["n"], "ops": [(o["o"] + ":" + o.get("kind", "")) for o in c["ops"]][:60]}

def run_cases(ctx, cases):
    results = run_harness(cases, nproc=1, timeout=3000)
    terms, idx = [], []
    for i, (c, r) in enumerate(zip(cases, results)):
        if c["mode"] == "history" and r.get("r") == "ok":
            terms.append(coq_term(c, r)); idx.append(i)
    outs = coq_eval(ctx, IMPORTS, terms)
    codes = [None] * len(cases)
    for i, o in zip(idx, outs): codes[i] = parseN(o)
    return results, codes

def judge(ctx, cases, results, codes):
    stats = {"histories_ok": 0, "execs": 0, "mismatch_refused": 0, "stress_reads": 0, "stress_execs": 0}
    for c, r, code in zip(cases, results, codes):
        b = brief(c)
        if r.get("r") in ("panic", "crash"):
            ctx.violations.append(("panic: %s" % r.get("msg", r.get("stderr", "")), {"case": c, "brief": b})); continue
        if c["mode"] == "stress":
            stats["stress_reads"] += r.get("reads", 0); stats["stress_execs"] += r.get("execs", 0)
            stats["stress_deep_clones"] = stats.get("stress_deep_clones", 0) + r.get("deep_clones", 0)
            if r.get("deep_shared"):
                ctx.violations.append(("deep_clone taken while other threads read / write the parameter is not independent of the original (%d of %d deep clones shared its cell)" % (r["deep_shared"], r["deep_clones"]),
                                       {"case": c, "brief": b, "result": r}))
            if r.get("torn_get") or r.get("torn_exec"):
                ctx.violations.append(("a concurrent reader observed a mixture of two parameter arrays (%d torn get(), %d torn gate executions of %d)" % (r["torn_get"], r["torn_exec"], r["execs"]),
                                       {"case": c, "brief": b, "result": r}))
            continue
        if code is None: continue
        stats["execs"] += sum(1 for o in c["ops"] if o["o"] == "exec")
        stats["mismatch_refused"] += sum(1 for o, ob in zip(c["ops"], r["obs"]) if o["o"] == "add_multi" and not ob.get("ok", True))
        for o, ob in zip(c["ops"], r["obs"]):
            if o["o"] == "export":
                stats["exports"] = stats.get("exports", 0) + 1
                if ob.get("ok") and not ob.get("same_as_fresh"):
                    ctx.violations.append(("the export of a built circuit does not show the parameters' current values: it differs from the export of a freshly assembled circuit holding the same gates (operation %d of the history)" % c["ops"].index(o),
                                           {"case": c, "brief": b, "text": ob.get("text", "")[:800]}))
        if code == 0: stats["histories_ok"] += 1
        else:
            keep = [i for i, o in enumerate(c["ops"]) if o["o"] not in ("export", "via_sub")]
            o = c["ops"][keep[code - 1]]; ob = r["obs"][keep[code - 1]]
            what = {"exec": "executing a built circuit did not apply the concrete gates with the parameters' CURRENT values",
                    "get": "a handle does not read the value last set through one of its aliases",
                    "add_multi": "multi-gate builder form: wrong acceptance for the given target / parameter list lengths"}.get(o["o"], "builder operation %s behaved differently" % o["o"])
            ctx.violations.append((what + " (operation %d of the history: %s)" % (keep[code - 1] + 1, o["o"]), {"case": c, "brief": b, "failing_op_index": keep[code - 1], "op": o, "observed": {k: v for k, v in ob.items() if k != "v"}}))
    return stats

def run(ctx):
    proof_ok = proof_check(ctx)
    if ctx.thorough() and proof_ok:
        coqchk(ctx)
    cases = gen_cases(ctx)
    results, codes = run_cases(ctx, cases)
    stats = judge(ctx, cases, results, codes)
    ctx.broken = ctx.broken[:5]
    ops = {}
    for c in cases:
        for o in c.get("ops", []): ops[o["o"]] = ops.get(o["o"], 0) + 1
    return finish(ctx, trusted=TRUSTED, evaluations=len(cases), nontrivial=len(cases),
                  rule="random histories of 4..40(120) operations (new / set / clone / deep_clone / add single and multi parametric gates of all 7 kinds with and without controls / "
                       "build / build_final / execute / get) on 1..4 qubits, every built circuit executed again after all updates; a directed build-vs-build_final history per kind; "
                       "a wall-clock stress run (writers flipping a shared Parameter<2>, readers calling get() and executing a circuit with a parametric gate on it)",
                  samples=[brief(c) for c in cases[:1]], extra={"verdict_counts": stats, "history_op_counts": ops})

def replay(ctx, path):
    body = json.load(open(path))
    case = body["replay"].get("case")
    if not case:
        print("replay file carries no concrete case:", body["what"]); return 1
    results, codes = run_cases(ctx, [case])
    n0 = len(ctx.violations)
    judge(ctx, [case], results, codes)
    print(json.dumps({"brief": brief(case), "code": codes[0], "violations": [w for w, _ in ctx.violations[n0:]]}, indent=1)[:3000])
    return 1 if len(ctx.violations) > n0 else 0
