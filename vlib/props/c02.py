"""C02: measurement samples the Born distribution and collapses onto the outcome."""
from ..common import *
from ..gatecases import rand_vec, rand_unitary
import math, itertools

TRUSTED = [
    "Coq 8.16.1 kernel; vm_compute to RUN the model, the projections and the cumulative Born weights on the cases",
    "the uniform draw is supplied through the verif hook (draw queue); the statistical quality of rand's generator and the independence of its thread-local streams are trusted",
    "measure_n: the assignment of shots to threads is not observable; results are compared as multisets under several pools",
    "hand-written model Model/Measure.v tied to state.rs by this correspondence run; float rounding not modelled (draws are kept 1e-7 away from the interval boundaries except in the dedicated boundary search)",
]
IMPORTS = ("From QI Require Import Base.Scalar Model.Outcome Model.Gates Model.StateOps Model.StateCtor Model.Measure Run.FloatInst Run.EvalGates Run.EvalState Run.EvalMeasure.")

def cq_basis(c):
    b = c["basis"]
    if b == "C": return "BComp"
    if b == "X": return "BX"
    if b == "Y": return "BY"
    u = c["u"]
    return "(BCustom ((%s,%s),(%s,%s),(%s,%s),(%s,%s)))" % tuple(cqf(x) for x in u)

def exact_unitaries(rng):
    """2x2 unitaries whose entries make Unitary2::new's 2-epsilon test pass: built from exactly representable pieces"""
    h = 1 / math.sqrt(2)
    cands = [
        [1, 0, 0, 0, 0, 0, 1, 0], [0, 0, 1, 0, 1, 0, 0, 0], [1, 0, 0, 0, 0, 0, 0, 1], [0, 0, 0, -1, 0, 1, 0, 0],
        [0.6, 0, 0.8, 0, 0.8, 0, -0.6, 0], [0.6, 0, 0, 0.8, 0, 0.8, 0.6, 0], [0, 0.6, 0.8, 0, -0.8, 0, 0, -0.6],
        [h, 0, h, 0, h, 0, -h, 0], [h, 0, 0, -h, 0, -h, h, 0], [0.28, 0, 0.96, 0, 0.96, 0, -0.28, 0], [0, 1, 0, 0, 0, 0, 0, -1],
        # non-symmetric ones (M^T != M): a transposition slip in the adjoint is visible only on these
        [0.6, 0, -0.8, 0, 0.8, 0, 0.6, 0], [0.28, 0, 0.96, 0, -0.96, 0, 0.28, 0], [0.6, 0, -0.8, 0, 0, 0.8, 0, 0.6], [0, 0.8, 0.6, 0, -0.6, 0, 0, -0.8],
    ]
    return [[float2bits(x) for x in c] for c in cands]

def entangled(rng, n, kind):
    dim = 1 << n
    if kind == "random": return rand_vec(rng, n, "normalised")
    if kind == "ghz_rot":
        v = [0.0] * (2 * dim); a, b = rng.uniform(0.2, 0.9), rng.uniform(0, 6.28)
        v[0] = a; v[2 * (dim - 1)] = math.sqrt(1 - a * a) * math.cos(b); v[2 * (dim - 1) + 1] = math.sqrt(1 - a * a) * math.sin(b)
        return [float2bits(x) for x in v]
    if kind == "sparse":       # some outcomes have probability exactly zero
        v = [0.0] * (2 * dim)
        for k in rng.sample(range(dim), max(1, dim // 3)):
            v[2 * k], v[2 * k + 1] = rng.gauss(0, 1), rng.gauss(0, 1)
        nrm = math.sqrt(sum(x * x for x in v))
        return [float2bits(x / nrm) for x in v]
    if kind == "unnormalised":
        s = rng.choice([0.5, 2.0, 3.7])
        return [float2bits(bits2float(x) * s) for x in rand_vec(rng, n, "normalised")]
    raise ValueError(kind)

def gen_cases(ctx):
    rng = ctx.rng
    cases = []
    us = exact_unitaries(rng)
    def mk(mode, n, v, basis, qs, **kw):
        c = {"op": "measure", "mode": mode, "n": n, "v": v, "basis": basis if isinstance(basis, str) else "U", "qs": qs, "thr": rng.choice([10, 1])}
        if not isinstance(basis, str): c["u"] = basis
        c.update(kw); cases.append(c)
    grid = [0.0, 0.03, 0.17, 0.31, 0.44, 0.5, 0.62, 0.77, 0.89, 0.97, 1 - 2**-53]
    nmax = 3 if not ctx.thorough() else 4
    for n in range(1, nmax + 1):
        subsets = [list(s) for r in range(0, n + 1) for s in itertools.combinations(range(n), r)]
        for qs in subsets:
            orders = [qs] if len(qs) < 2 else [qs, list(reversed(qs))]
            if len(qs) > 2:
                p = list(qs); rng.shuffle(p); orders.append(p)
            for q in orders:
                for basis in ["C", "X", "Y", rng.choice(us)]:
                    for kind in ["random", "ghz_rot", "sparse"]:
                        v = entangled(rng, n, kind)
                        for d in rng.sample(grid, 3 if not ctx.thorough() else 6):
                            mk("measure", n, v, basis, q, draw=float2bits(d))
                    v = entangled(rng, n, "random")
                    mk("boundaries", n, v, basis, q)
                    mk("repeat", n, entangled(rng, n, rng.choice(["random", "sparse"])), basis, q, draw=float2bits(rng.choice(grid[:-1])),
                       draws=[float2bits(x) for x in [1e-9, 0.25, 0.5, 0.75, 1 - 1e-9]])
    # larger registers, un-normalised (but nonzero) inputs
    for n, cnt in ([(5, 12), (6, 8), (7, 4)] if not ctx.thorough() else [(5, 60), (6, 40), (7, 20), (8, 10)]):
        for _ in range(cnt):
            qs = rng.sample(range(n), rng.randrange(0, min(n, 4) + 1))
            mk("measure", n, entangled(rng, n, rng.choice(["random", "sparse", "unnormalised"])), rng.choice(["C", "X", "Y", rng.choice(us)]), qs, draw=float2bits(rng.choice(grid)))
    # a register beyond the parallel-path and 1024-amplitude sizes, measuring the high-index qubit 10 (the model is quadratic
    # in the vector length inside Coq, so only a few such cases)
    for qs, b in (([10], "C"), ([0, 10], "C"), ([10, 3], "X")) + ((([10, 9, 1], "Y"),) if ctx.thorough() else ()):
        mk("measure", 11, entangled(rng, 11, "random"), b, qs, draw=float2bits(rng.choice(grid[1:-1])))
    # accepted custom matrices whose adjoint Unitary2::new would reject (searched on the real acceptance test)
    found = run_harness([{"op": "measure", "mode": "search_u", "n": 1, "v": entangled(rng, 1, "random"), "basis": "C", "qs": [], "seed": ctx.seed * 7919 + k} for k in range(3)])
    ctx.cov["custom_unitary_search"] = [{"tries": f.get("tries"), "accepted_by_Unitary2_new": f.get("accepted"), "found_adjoint_rejected": bool(f.get("u"))} for f in found]
    for f in found:
        if f.get("u"):
            for n in (1, 2):
                mk("measure", n, entangled(rng, n, "random"), f["u"], [0], draw=float2bits(rng.choice(grid)))
    # the largest value the generator can draw (1 - 2^-53) on states whose last outcome has probability zero: the float
    # cumulative sum may stay below the draw, so the last-bin fallback is taken
    for _ in range(400 if not ctx.thorough() else 3000):
        v = [rng.gauss(0, 1) for _ in range(6)] + [0.0, 0.0]
        nrm = math.sqrt(sum(x * x for x in v))
        mk("measure", 2, [float2bits(x / nrm) for x in v], "C", [], draw=float2bits(1 - 2**-53))
    # nonzero but tiny / huge un-normalised states
    for sc in (1e-9, 1e-30, 1e-160, 1e9, 1e150):
        v = [float2bits(bits2float(x) * sc) for x in rand_vec(rng, 2, "normalised")]
        mk("measure", 2, v, "C", [0], draw=float2bits(0.4)); mk("measure", 2, v, "X", [], draw=float2bits(0.7))
    # one-qubit states on which dividing the collapsed vector by its norm leaves a squared norm more than 2 ulp from 1 (found by a
    # search over 3e6 random one-qubit states on the real crate; measure used to re-validate the renormalised vector with
    # State::new's tolerance EPSILON * len and report StateVectorNotNormalised): both outcomes, every basis that ends in that collapse
    ROUNDING_CORPUS = [["bfe14ae64f59e7ee", "3fe51b37d4c506b4", "bfe0b6fd9d2586be", "bf84c2e7fa636d0b"],
                       ["%016x" % b for b in (13826009751587079016, 4604426431804602867, 4593511900085336671, 4602728369837524411)],
                       ["%016x" % b for b in (13817666119395214695, 13826177883897385337, 13825600934469450072, 13827851056433665209)],
                       ["%016x" % b for b in (4603844990688402731, 4604711100772528668, 13813146943182207967, 13821884115867326464)]]
    for v in ROUNDING_CORPUS:
        for d in (0.0, 0.999999):
            mk("measure", 1, v, "C", [0], draw=float2bits(d)); mk("measure", 1, v, "C", [], draw=float2bits(d))
    # many outcomes at once: all 10 / 11 qubits of a register measured in one call (1024 / 2048 outcomes), on basis states, sparse and
    # dense states. The reference for these is computed by the driver (the model's evaluation in Coq is quadratic in the number of
    # amplitudes); labelled large_registers in the evidence
    for n in (10, 11):
        dim = 1 << n
        for kind in ("basis", "basis", "two", "dense"):
            if kind == "basis":
                v = [0.0] * (2 * dim); k = rng.choice([63, 5, dim - 1, rng.randrange(dim)]); v[2 * k], v[2 * k + 1] = 0.6, -0.8
            elif kind == "two":
                v = [0.0] * (2 * dim); k1, k2 = rng.sample(range(dim), 2); v[2 * k1] = 0.6; v[2 * k2 + 1] = 0.8
            else:
                v = [bits2float(x) for x in rand_vec(rng, n, "normalised")]
            for qs in ([], sorted(rng.sample(range(n), 10), reverse=True)):
                for d in rng.sample(grid[1:-1], 2):
                    mk("measure", n, [float2bits(x) for x in v], "C", qs, draw=float2bits(d), big=True)
    # 17 qubits measured in one call (131072 outcomes: the outcome no longer fits 16 bits), on a basis state with bit 16 set and on a
    # superposition of two basis states that differ in bit 16 only
    n = 17; dim = 1 << n
    for ks in ([(1 << 16) + 5], [5, (1 << 16) + 5]):
        v = [0.0] * (2 * dim)
        for j, k in enumerate(ks): v[2 * k + j] = 1.0 if len(ks) == 1 else (0.6, 0.8)[j]
        mk("measure", n, [float2bits(x) for x in v], "C", [], draw=float2bits(0.7), big=True)
    # the generator itself: 4 threads that start together measure |+...+> (12 qubits) 12 times each - no two records may coincide
    # (probability 2^-144 per pair for independent draws); 256 shots of one measure_n on the same state - at least 200 distinct outcomes
    # (about 248 expected; fewer than 200 has probability below 1e-25)
    mk("independence", 12, [float2bits(1.0), float2bits(0.0)] + [float2bits(0.0)] * (2 * 4096 - 2), "C", [], threads=4, per_thread=12, shots=256)
    # argument errors
    for n in (1, 2, 3):
        v = entangled(rng, n, "random")
        for qs in ([n], [0, n + 1], list(range(n + 1)), [2**40]):
            mk("measure", n, v, rng.choice(["C", "X"]), qs, draw=float2bits(0.3))
    # more listed qubits than the register has, all of them in range (repeats): an error, not a result and not a panic
    for n, qs in ((2, [0, 0, 0]), (2, [1, 0, 1]), (3, [2, 2, 2, 2]), (1, [0, 0]), (2, [0] * 65), (3, [1, 2] * 40)):
        for b in ("C", "X"):
            mk("measure", n, entangled(rng, n, "random"), b, qs, draw=float2bits(0.3))
    # measure_n: same input, queued draws; multiset comparison
    for _ in range(20 if not ctx.thorough() else 80):
        n = rng.randrange(1, 5)
        shots = rng.choice([1, 2, 5, 16, 40])
        qs = rng.sample(range(n), rng.randrange(0, n + 1))
        mk("measure_n", n, entangled(rng, n, "random"), rng.choice(["C", "X", "Y"]), qs, shots=shots, draws=[float2bits(rng.choice(grid[:-1])) for _ in range(shots)])
    # shot counts that no worker count divides, under the default pool and under small pools: exactly n results, always
    for shots, pool in ((33, None), (47, None), (100, None), (9, 4), (13, 3), (31, 5), (64, 6)):
        n = rng.randrange(1, 3)
        qs = rng.sample(range(n), rng.randrange(0, n + 1))
        kw = {"pool": pool} if pool else {}
        mk("measure_n", n, entangled(rng, n, "random"), rng.choice(["C", "X"]), qs, shots=shots, draws=[float2bits(rng.choice(grid[:-1])) for _ in range(shots)], **kw)
    mk("measure_n", 2, entangled(rng, 2, "random"), "C", [0], shots=0, draws=[])
    # nearly certain outcomes: the other outcomes have total probability 1e-10 .. 1e-7, far above zero in double precision;
    # the collapse must still remove them exactly (and collapse an entangled partner)
    for n in (1, 2, 3):
        for e in (3e-4, 1e-4, 2e-5):
            dim = 1 << n
            v = [0.0] * (2 * dim); k0 = rng.randrange(dim); k1 = k0 ^ (1 << rng.randrange(n))
            ph = rng.uniform(0, 6.28)
            v[2 * k0] = math.sqrt(1 - e * e); v[2 * k1] = e * math.cos(ph); v[2 * k1 + 1] = e * math.sin(ph)
            vb = [float2bits(x) for x in v]
            mk("measure", n, vb, "C", [], draw=float2bits(0.3)); mk("measure", n, vb, "C", [(k0 ^ k1).bit_length() - 1], draw=float2bits(0.6))
            mk("repeat", n, vb, "C", [], draw=float2bits(0.4), draws=[float2bits(x) for x in [1e-9, 0.25, 0.5, 0.75, 1 - 1e-9]])
        # ... and in the X basis: a state within 1e-4 of |+..+>
        hs = [1 / math.sqrt(1 << n)] * (1 << n); hs[0] += 2e-4
        nrm = math.sqrt(sum(x * x for x in hs))
        vx = []
        for x in hs: vx += [x / nrm, 0.0]
        mk("measure", n, [float2bits(x) for x in vx], "X", [], draw=float2bits(0.5))
    return cases

def cq_mimpl(r):
    if r["r"] == "ok": return "(MOk [%s] %s %s)" % (";".join("true" if b else "false" for b in r["outcomes"]), cqN(r["nq"]), cqvec(r["v"]))
    if r["r"] == "err": return "MErr"
    return "MPanic"

def brief(c):
    b = {"mode": c["mode"], "n": c["n"], "basis": c["basis"], "qs": c["qs"]}
    if "draw" in c: b["draw"] = bits2float(c["draw"])
    if "u" in c: b["u"] = [bits2float(x) for x in c["u"]]
    return b

def run_cases(ctx, cases):
    results = run_harness(cases, nproc=8)
    terms, idx = [], []
    for i, (c, r) in enumerate(zip(cases, results)):
        par = cqbool(c["n"] >= c["thr"])
        if r["r"] not in ("ok", "err", "panic"): continue
        if any(q >= 2**30 for q in c["qs"]) and c["mode"] != "measure": continue
        if c.get("big"): continue            # judged by the driver's own reference (judge_big)
        if c["mode"] == "measure" or c["mode"] == "repeat":
            d = c["draw"]
            terms.append("check_measure %s %s %s %s %s %s %s" % (par, cq_basis(c), cqN(c["n"]), cqvec(c["v"]), cqNs(c["qs"]), cqf(d), cq_mimpl(r))); idx.append((i, "m"))
            if c["basis"] == "C" and r["r"] == "ok":
                aq = c["qs"] or list(range(c["n"]))
                terms.append("b2n (check_collapse %s %s [%s] %s)" % (cqvec(c["v"]), cqNs(aq), ";".join("true" if b else "false" for b in r["outcomes"]), cqvec(r["v"]))); idx.append((i, "c"))
        elif c["mode"] == "boundaries" and r["r"] == "ok":
            cuts = "[" + ";".join("(%s,%s,%s)" % (cqf(x[0]), cqN(max(x[1], 0)), cqN(max(x[2], 0))) for x in r["cuts"]) + "]"
            terms.append("check_cuts %s %s %s %s %s %s" % (par, cq_basis(c), cqN(c["n"]), cqvec(c["v"]), cqNs(c["qs"]), cuts)); idx.append((i, "b"))
        elif c["mode"] == "measure_n" and r["r"] == "ok":
            for d, sh in zip(c["draws"], sorted_shots(c, r)):
                pass
    outs = coq_eval(ctx, IMPORTS, terms)
    codes = {}
    for (i, kind), o in zip(idx, outs):
        codes[(i, kind)] = parseN(o)
    return results, codes

def sorted_shots(c, r):
    return r.get("shots", [])

def judge_big(ctx, c, r, stats):
    """reference for registers measured in 1024+ outcomes: Born weights, the outcome the draw selects, the renormalised projection"""
    n = c["n"]; qs = c["qs"] or list(range(n)); dim = 1 << n
    v = [bits2float(x) for x in c["v"]]
    probs = [0.0] * (1 << len(qs)); outc = [0] * dim
    for idx in range(dim):
        o = 0
        for i, q in enumerate(qs):
            if (idx >> q) & 1: o |= 1 << i
        outc[idx] = o; probs[o] += v[2 * idx] ** 2 + v[2 * idx + 1] ** 2
    tot = sum(probs); d = bits2float(c["draw"]); cum = 0.0; k = None; near = False
    for o, pr in enumerate(probs):
        cum += pr / tot
        if abs(d - cum) < 1e-9 and pr > 0: near = True
        if k is None and d < cum: k = o
    stats["large_registers"] = stats.get("large_registers", 0) + 1
    if near or k is None: return
    got = sum((1 << i) for i, bit in enumerate(r["outcomes"]) if bit)
    if got != k:
        ctx.violations.append(("measuring %d qubits at once: the outcome returned (%d, Born weight %.3g) is not the one the draw %.6f selects (%d, weight %.3g)" % (len(qs), got, probs[got] / tot, d, k, probs[k] / tot),
                               {"case": c, "brief": brief(c), "outcomes": r["outcomes"]})); return
    nrm = math.sqrt(probs[k]); w = [bits2float(x) for x in r["v"]]
    err = max(abs(w[2 * i + j] - (v[2 * i + j] / nrm if outc[i] == k else 0.0)) for i in range(dim) for j in (0, 1))
    if err > 1e-12:
        ctx.violations.append(("measuring %d qubits at once: the new state is not the renormalised projection onto the outcome (max deviation %.3g)" % (len(qs), err), {"case": c, "brief": brief(c)}))

def judge(ctx, cases, results, codes):
    stats = {"class_agrees": 0, "outcomes_eq_model": 0, "state_close_model": 0, "draw_in_born_interval": 0, "new_state_normalised": 0,
             "collapse_ok": 0, "boundaries_ok": 0, "repeat_ok": 0, "measure_n_ok": 0, "err": 0}
    known = load_known()
    for i, (c, r) in enumerate(zip(cases, results)):
        b = brief(c)
        if r["r"] in ("panic", "crash"):
            ctx.violations.append(("panic: %s" % r.get("msg", ""), {"case": c, "brief": b})); continue
        if not r.get("input_unchanged", True):
            ctx.violations.append(("the input state was modified", {"case": c, "brief": b})); continue
        valid_args = len(c["qs"]) <= c["n"] and all(q < c["n"] for q in c["qs"])
        if r["r"] == "err":
            stats["err"] += 1
            maxamp = max(abs(bits2float(x)) for x in c["v"])
            kf = [k for k in known if k.get("property") == "C02" and k.get("class") == "squared-norm-underflow"]
            if valid_args and kf and 0 < maxamp < 1e-150 and "StateVectorNotNormalised" in r.get("e", ""):
                if kf[0]["what"] not in ctx.known: ctx.known.append(kf[0]["what"])
                continue
            if valid_args and not (c["mode"] == "measure_n" and c.get("shots") == 0):
                ctx.violations.append(("measuring a valid nonzero state failed: %s" % r.get("e"), {"case": c, "brief": b, "u_accepted": r.get("u_accepted"), "adj_accepted": r.get("adj_accepted")}))
                continue
        if c.get("big") and r["r"] == "ok":
            judge_big(ctx, c, r, stats); continue
        if c["mode"] == "independence":
            stats["independence_runs"] = stats.get("independence_runs", 0) + 1
            if r.get("identical_pairs"):
                ctx.violations.append(("%d pair(s) of threads that measured side by side obtained the SAME sequence of %d outcomes of a uniform 12-qubit state: their draws are not independent" % (r["identical_pairs"], r["per_thread"]),
                                       {"case": {k: v for k, v in c.items() if k != "v"}, "first_record": r.get("first_record")}))
            elif r.get("measure_n_failed") or r.get("distinct", 0) < 200:
                ctx.violations.append(("measure_n: %d shots of a uniform 12-qubit state gave only %d distinct outcomes (about 248 expected): the shots are not independent draws" % (r["shots"], r.get("distinct", 0)),
                                       {"case": {k: v for k, v in c.items() if k != "v"}}))
            continue
        code = codes.get((i, "m"))
        if code is not None:
            for bit, nm in ((1, "class_agrees"), (2, "outcomes_eq_model"), (4, "state_close_model"), (8, "draw_in_born_interval"), (16, "new_state_normalised")):
                if code & bit: stats[nm] += 1
            if r["r"] == "ok" and not valid_args:
                ctx.violations.append(("invalid qubit list accepted", {"case": c, "brief": b}))
            elif not (code & 8):
                ctx.violations.append(("the sampled outcome does not have the draw in its Born interval (probability = squared norm of the projection)", {"case": c, "brief": b, "outcomes": r.get("outcomes")}))
            elif not (code & 16) or not (code & 32):
                ctx.violations.append(("the post-measurement state is not normalised / has another width", {"case": c, "brief": b}))
            elif not (code & 1) or not (code & 2) or not (code & 4):
                ctx.violations.append(("outcome or collapsed state differs from the specified measurement (basis change, projection, renormalisation)", {"case": c, "brief": b, "verdict_bits": code, "outcomes": r.get("outcomes")}))
        cc = codes.get((i, "c"))
        if cc is not None:
            if cc: stats["collapse_ok"] += 1
            else: ctx.violations.append(("collapsed state is not the renormalised projection onto the outcome (unmeasured qubits must keep their conditional state)", {"case": c, "brief": b}))
        bc = codes.get((i, "b"))
        if bc is not None:
            if bc == 3: stats["boundaries_ok"] += 1
            else: ctx.violations.append(("the outcome-vs-draw step function located on the real code does not have its steps at the cumulative Born weights", {"case": c, "brief": b, "cuts": [[bits2float(x[0]), x[1], x[2]] for x in r["cuts"]], "verdict_bits": bc}))
        if c["mode"] == "repeat" and r["r"] == "ok":
            if all(a == r["first"] for a in r["again"]): stats["repeat_ok"] += 1
            else: ctx.violations.append(("repeating the measurement on the collapsed state did not reproduce the outcome for every draw", {"case": c, "brief": b, "first": r["first"], "again": r["again"]}))
        if c["mode"] == "measure_n":
            if c.get("shots") == 0:
                if r["r"] != "err": ctx.violations.append(("measure_n with 0 shots must be an error", {"case": c, "brief": b}))
                continue
            if r["r"] == "ok":
                # each shot must equal measure(draw) of the same input for its own draw: compare as multisets with single measurements
                singles = run_harness([dict(c, mode="measure", draw=d) for d in c["draws"]])
                key = lambda s: json.dumps([s.get("outcomes"), s.get("v")])
                if sorted(key(s) for s in r["shots"]) == sorted(key(s) for s in singles) and len(r["shots"]) == c["shots"] and r.get("draws_left") == 0:
                    stats["measure_n_ok"] += 1
                else:
                    ctx.violations.append(("measure_n did not return n results each equal to measure() of the same unmodified input", {"case": c, "brief": b, "returned": len(r["shots"]), "draws_left": r.get("draws_left")}))
    return stats

def run(ctx):
    proof_ok = proof_check(ctx)
    if ctx.thorough() and proof_ok:
        coqchk(ctx)
    cases = gen_cases(ctx)
    results, codes = run_cases(ctx, cases)
    stats = judge(ctx, cases, results, codes)
    ctx.broken = ctx.broken[:5]
    modes = {}
    for c in cases: modes[c["mode"] + "/" + c["basis"]] = modes.get(c["mode"] + "/" + c["basis"], 0) + 1
    return finish(ctx, trusted=TRUSTED, evaluations=len(cases), nontrivial=len(cases),
                  rule="n = 1..3(4): every qubit subset in two or three orders x four bases (custom: unitaries accepted by Unitary2::new) x random / rotated-GHZ / sparse states x a grid of draws "
                       "incl. 0 and 1-2^-53; boundary search (bisection on the draw) per placement; repeat-measurement with five draws; larger registers and un-normalised inputs; "
                       "argument errors; measure_n with queued draws compared as multisets with single shots",
                  samples=[brief(c) for c in cases[:2]], extra={"verdict_counts": stats, "cases_by_mode_and_basis": modes})

def replay(ctx, path):
    body = json.load(open(path))
    case = body["replay"].get("case")
    if not case:
        print("replay file carries no concrete case:", body["what"]); return 1
    results, codes = run_cases(ctx, [case])
    n0 = len(ctx.violations)
    judge(ctx, [case], results, codes)
    print(json.dumps({"brief": brief(case), "impl": results[0]["r"], "codes": {str(k): v for k, v in codes.items()}, "violations": [w for w, _ in ctx.violations[n0:]]}, indent=1))
    return 1 if len(ctx.violations) > n0 else 0
