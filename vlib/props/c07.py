"""C07: all API surfaces for a gate denote the same operation."""
from ..common import *
from ..gatecases import coq_op, rand_vec, GATE_IMPORTS
from .. import wiring

TRUSTED = [
    "Coq 8.16.1 kernel; vm_compute decides the generated table (finite) and RUNS the model on the probe cases",
    "translator vlib/wiring.py (tokenizer, parser and symbolic evaluator for the Rust subset the wrappers use; reading of documented roles "
    "from parameter names and the circuit! rustdoc list): regenerates coq/theories/Gen/WiringTable.v from /repo on every run",
    "the translator's reading is itself checked: every surface is EXECUTED (generated Rust program calling each State method, chainable form, "
    "Gate constructor, CircuitBuilder method and circuit! arm with distinct qubits in every role) and compared, inside Coq and bit for bit, with "
    "C01's operator model applied to the documented-role call list",
    "C01: each operator model = the operator the constructor builds (separate property); rustc's macro expansion and method resolution",
]
IMPORTS = GATE_IMPORTS + "\nFrom QI Require Import Model.OpSeq Run.EvalSurf."
SURF = os.path.join(ROOT, "harness-surfaces")
GEN = os.path.join(COQ, "theories", "Gen", "WiringTable.v")

KNOWN_CLASS = "operate-arity-rule"
BASE_QUBITS = {"CNOT": 2, "SWAP": 2, "Toffoli": 3, "Match": 2}

def build_surfaces(ctx, src):
    os.makedirs(os.path.join(SURF, "src"), exist_ok=True)
    p = os.path.join(SURF, "src", "main.rs")
    if not os.path.exists(p) or open(p).read() != src:
        open(p, "w").write(src)
    lock = os.path.join(SURF, "Cargo.lock")
    if not os.path.exists(lock):
        shutil.copy(os.path.join(REPO, "Cargo.lock"), lock)
    env = dict(os.environ, CARGO_TARGET_DIR=os.path.join(HARNESS, "target"), CARGO_NET_OFFLINE="true")
    rc, out = sh("cargo build --release --offline 2>&1", cwd=SURF, timeout=1800, env=env)
    return rc == 0, out

def run_surfaces(probes):
    exe = os.path.join(HARNESS, "target", "release", "qi-surfaces")
    p = subprocess.run([exe], input=json.dumps({"probes": probes}) + "\n", stdout=subprocess.PIPE, stderr=subprocess.PIPE, text=True, timeout=600)
    lines = [json.loads(l) for l in p.stdout.splitlines() if l.strip()]
    return p.returncode, lines, p.stderr[-500:]

def coq_calls(calls, oracles, variant=0):
    gs = []
    for op, ts, cs in calls:
        term, _ = coq_op(op, oracles.get(wiring.oracle_key(op, variant), oracles.get(op, [])))
        gs.append("(%s, %s, %s)" % (term, cqNs(ts), cqNs(cs)))
    return "[%s]" % ";".join(gs)

def coq_res(rec):
    if rec["r"] == "ok": return "(IOk %s)" % cqvec(rec["v"])
    return "IErr"

def label(e):
    if e["surface"] == "macro":
        return "circuit! %s%s" % (e["arm"]["text"], " (comma-terminated)" if e["arm"]["trailing"] else " (terminal)")
    return {"state": "State::", "chain": "Result<State>::", "gate": "Gate::", "builder": "CircuitBuilder::"}[e["surface"]] + e["name"]

def failing_entries(ctx):
    """names of the table rows whose body differs from the documented-role reading (evaluated in Coq)"""
    pre = "From Coq Require Import List String Bool.\nFrom QI Require Import Spec.Wiring Gen.WiringTable.\nOpen Scope string_scope.\n"
    f = os.path.join(BUILD, "audit", "WiringBad.v")
    os.makedirs(os.path.dirname(f), exist_ok=True)
    open(f, "w").write(pre + 'Eval vm_compute in map (fun e => (e_surface e, e_name e)) (filter (fun e => negb (entry_okb e)) wiring_table).\n')
    ok, log = coq_make(["theories/Gen/WiringTable.vo"])
    rc, out = sh(["timeout", "300", "coqc", "-noglob", "-Q", os.path.join(COQ, "theories"), "QI", f], cwd=os.path.dirname(f))
    return re.findall(r'\("(\w+)",\s*"(\w+)"\)', out) if rc == 0 else None

def run(ctx):
    # 1. translate the current source and regenerate the table
    try:
        entries, problems, docs = wiring.translate(REPO)
        notes = wiring.emit_coq(entries, docs, GEN)
    except (wiring.Untranslatable, OSError, ValueError, KeyError, IndexError) as ex:
        ctx.broken.append("translator could not read the wrapper sources: %s" % ex)
        return finish(ctx, trusted=TRUSTED, rule="translation failed")
    for p in (problems + notes)[:6]:
        ctx.broken.append("translator: " + p)
    # 2. the theorems over the regenerated table
    proof_ok = proof_check(ctx)
    bad_rows = []
    if not proof_ok:
        bad_rows = failing_entries(ctx) or []
        if bad_rows:
            ctx.broken.append("table rows that differ from their documented-role reading: %s" % ", ".join("%s %s" % r for r in bad_rows[:8]))
    elif ctx.thorough():
        coqchk(ctx)
    # 3. execute every surface and compare with the model of the documented-role call list
    src, plan, oper = wiring.gen_rust(entries)
    ok, out = build_surfaces(ctx, src)
    stats = {"surfaces": len(plan), "operate_forms": len(oper), "executed": 0, "exact": 0, "close_only": 0, "ok_outcomes": 0, "by_surface": {},
             "table_rows": len(entries), "translated_rows": sum(1 for e in entries if e["items"] is not None)}
    if not ok:
        ctx.broken.append("the generated program that calls every surface does not compile: " + out[-400:].replace("\n", " | "))
        return finish(ctx, trusted=TRUSTED, rule="surfaces program did not build", extra={"verdict_counts": stats})
    nprobe = 2 if not ctx.thorough() else 6
    probes = [rand_vec(ctx.rng, wiring.NPROBE, "generic" if i % 2 == 0 else "normalised") for i in range(nprobe)]
    probes.append(rand_vec(ctx.rng, wiring.NPROBE, "mixed"))      # amplitudes of order 1 next to amplitudes of order 1e-9: a surface is linear, nothing is "negligible"
    # ... and a state whose population on the probes' control qubits (4 and 5) is a 1e-9 leakage: a controlled surface still acts on it
    leak = [bits2float(x) for x in rand_vec(ctx.rng, wiring.NPROBE, "generic")]
    for i in range(1 << wiring.NPROBE):
        if (i >> 4) & 3: leak[2 * i] *= 1e-9; leak[2 * i + 1] *= 1e-9
    probes.append([float2bits(x) for x in leak])
    nprobe += 2
    rc, lines, err = run_surfaces(probes)
    if rc != 0 or not lines or "oracles" not in lines[0]:
        ctx.violations.append(("the program that calls every surface on valid, distinct qubits crashed (a surface panicked): %s" % err, {"stderr": err}))
        return finish(ctx, trusted=TRUSTED, rule="surfaces program crashed", extra={"verdict_counts": stats})
    oracles = lines[0]["oracles"]
    recs = lines[1:]
    terms, meta = [], []
    for r in recs:
        i = r["i"]
        if i < len(plan):
            e = entries[plan[i]]
            variant = wiring.LAST_VARIANTS[i]
            calls = wiring.expected_calls(e, variant)
            meta.append(("surface", dict(e, _variant=variant), calls, r))
        else:
            o = oper[i - len(plan)]
            calls = [(o["op"], o["ts"], o["cs"])]
            meta.append(("operate", o, calls, r))
        variant = meta[-1][1].get("_variant", 0) if meta[-1][0] == "surface" else 0
        terms.append("check_surface_case %s %s %s %s" % (coq_calls(calls, oracles, variant), cqN(wiring.NPROBE), cqvec(probes[r["p"]]), coq_res(r)))
    outs = coq_eval(ctx, IMPORTS, terms)
    # a macro form evaluates each argument expression it is given exactly once (a method call does)
    stats["macro_argument_evaluations_checked"] = 0
    for kind, e, calls, r in meta:
        if kind == "surface" and e["surface"] == "macro" and "evals" in r:
            vals = [wiring.role_value(role, e["family"], e.get("_variant", 0)) for _, role, _ in e["roles"]]
            written = sum(len(v) if k == "ql" else 1 for v, (_, k) in zip(vals, e["params"]))
            stats["macro_argument_evaluations_checked"] += 1
            if r["evals"] != written and r["p"] == 0:
                ctx.violations.append(("%s evaluates its %d argument expressions %d times in all (a method call evaluates each once): with an expression that has an effect or draws a value the macro form differs from the method" % (
                    label(e), written, r["evals"]), {"surface": label(e), "arguments_written": written, "evaluations": r["evals"]}))
    known = {k["class"]: k for k in load_known() if k["property"] == "C07"}
    seen_known = 0
    for (kind, e, calls, r), o in zip(meta, outs):
        code = parseN(o)
        stats["executed"] += 1
        if r["r"] == "ok": stats["ok_outcomes"] += 1
        if code & 2: stats["exact"] += 1
        elif code & 4: stats["close_only"] += 1
        if kind == "surface":
            stats["by_surface"][e["surface"]] = stats["by_surface"].get(e["surface"], 0) + 1
        if code & 2:
            continue
        if code & 4:          # equal to 1e-12 but not bit for bit: the transformation is the documented one; only the exact tie is lost
            ctx.broken.append("%s agrees with the documented calls to 1e-12 but not bit for bit" % (label(e) if kind == "surface" else "operate(%s)" % e["op"]))
            continue
        if kind == "operate":
            base = BASE_QUBITS.get(e["op"], 1)
            arity_err = r["r"] == "err" and "InvalidNumberOfQubits(%d)" % base in r.get("e", "") and len(e["ts"]) + len(e["cs"]) != base
            if arity_err and KNOWN_CLASS in known:
                seen_known += 1
                continue
            what = "%soperate(%s, %s, %s) differs from applying that operator to those targets with those controls: %s" % (
                "Result<State>::" if e["chain"] else "State::", e["op"], e["ts"], e["cs"], r.get("e", "amplitudes differ"))
            ctx.violations.append((what, {"surface": "operate", "operator": e["op"], "targets": e["ts"], "controls": e["cs"], "chain": e["chain"],
                                          "probe": probes[r["p"]], "n": wiring.NPROBE, "impl": r.get("e", "ok, different amplitudes"), "verdict_bits": code}))
            continue
        args = {n: wiring.role_value(role, e["family"], e.get("_variant", 0)) for n, role, _ in e["roles"]}
        what = "%s with %s %s" % (label(e), json.dumps(args),
                                  ("returned %s" % r.get("e")) if r["r"] != "ok" else "does not perform the documented %s" % json.dumps(calls))
        ctx.violations.append((what, {"surface": e["surface"], "name": e["name"], "label": label(e), "args": args, "documented_calls": calls,
                                      "variant": e.get("_variant", 0), "probe": probes[r["p"]], "n": wiring.NPROBE, "impl": r.get("e", "ok, different amplitudes"), "verdict_bits": code}))
    if seen_known:
        k = known[KNOWN_CLASS]
        ctx.known.append("%s (%d of the operate forms executed)" % (k["what"], seen_known))
    missing = (len(plan) + len(oper)) * nprobe - len(recs)
    if missing:
        ctx.broken.append("%d surface calls produced no result" % missing)
    stats["known_operate_arity"] = seen_known
    ctx.broken = ctx.broken[:6]
    fams = sorted(set(e["family"] for e in entries if e.get("family")))
    return finish(ctx, trusted=TRUSTED, evaluations=len(recs), nontrivial=len(plan) + len(oper),
                  rule="translator regenerates the wiring table (%d rows: State methods, chainable forms, Gate constructors, CircuitBuilder methods, circuit! arms "
                       "of both terminations) and Coq decides it; every row and %d operate forms are executed on %d probe states of %d qubits with distinct qubits in "
                       "every role and compared bit for bit with the model of the documented-role call list" % (len(entries), len(oper), nprobe, wiring.NPROBE),
                  samples=[{"surface": label(entries[plan[i]]), "documented_calls": wiring.expected_calls(entries[plan[i]], wiring.LAST_VARIANTS[i])} for i in (0, len(plan) // 2, len(plan) - 1)],
                  extra={"verdict_counts": stats, "operators": fams, "translator_problems": problems + notes})

def replay(ctx, path):
    body = json.load(open(path))
    rp = body["replay"]
    if "surface" not in rp:
        print("replay file carries no concrete case:", body["what"]); return 1
    entries, problems, docs = wiring.translate(REPO)
    wiring.emit_coq(entries, docs, GEN)
    src, plan, oper = wiring.gen_rust(entries)
    ok, out = build_surfaces(ctx, src)
    if not ok:
        print("surfaces program does not build"); return 1
    rc, lines, err = run_surfaces([rp["probe"]])
    oracles = lines[0]["oracles"]
    for r in lines[1:]:
        i = r["i"]
        if i < len(plan):
            e = entries[plan[i]]
            if rp["surface"] == "operate" or e["surface"] != rp["surface"] or e["name"] != rp["name"] or wiring.LAST_VARIANTS[i] != rp.get("variant", 0): continue
            calls = wiring.expected_calls(e, wiring.LAST_VARIANTS[i])
        else:
            o = oper[i - len(plan)]
            if rp["surface"] != "operate" or (o["op"], o["ts"], o["cs"], o["chain"]) != (rp["operator"], rp["targets"], rp["controls"], rp["chain"]): continue
            calls = [(o["op"], o["ts"], o["cs"])]
        code = parseN(coq_eval(ctx, IMPORTS, ["check_surface_case %s %s %s %s" % (coq_calls(calls, oracles, rp.get("variant", 0) if rp["surface"] != "operate" else 0), cqN(wiring.NPROBE), cqvec(rp["probe"]), coq_res(r))])[0])
        print(json.dumps({"surface": rp.get("label", "operate"), "documented_calls": calls, "impl": r.get("e", "ok"), "verdict_bits": code}))
        if not (code & 2): return 1
    return 0
