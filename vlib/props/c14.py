"""C14: exported text is complete, ordered, deterministic and equals the written file."""
from ..common import *
from ..qasmcases import *

TRUSTED = [
    "Coq 8.16.1 kernel; vm_compute to RUN the lexer, the recogniser and the token-level export model on the cases",
    "the expected instruction list (one statement per target of each gate, in circuit order; one hoisted register per measurement group) is built by the driver from the circuit; "
    "the three U(..) parameter literals are taken from the text (their values are judged by C13)",
    "rayon's par_iter().flat_map().collect() is order preserving (library assumption; chunk independence is C03_chunking_irrelevant); the file-system clause is OS behaviour: exercised, not proved",
    "Rust's Display for f64 / usize prints -?digits(.digits)? (printer contract)",
]

def gen_cases(ctx):
    rng = ctx.rng
    us = exact_unitaries(rng)
    cases = []
    for _ in range(70 if not ctx.thorough() else 300):
        n = rng.randrange(1, 7)
        gates = rand_circuit(rng, n, rng.randrange(0, 30 if not ctx.thorough() else 120), us)
        cases.append({"op": "export", "mode": "text", "n": n, "gates": gates})
    # registers wider than what the gates touch (idle qubits at the top, at the bottom, in the middle): the register is the circuit width
    for n in (2, 3, 5, 8, 12):
        for used in ([0], [n - 1], [0, n // 2], list(range(0, n - 1)), list(range(1, n))):
            gates = []
            for _ in range(rng.randrange(1, 5)):
                t = rng.choice(used); rest = [q for q in used if q != t]
                gates.append({"g": "op", "kind": rng.choice(["H", "X", "S", "Z"]), "params": [], "ts": [t], "cs": rng.sample(rest, rng.randrange(0, min(2, len(rest)) + 1))})
            if rng.random() < 0.5: gates.append({"g": "meas", "basis": rng.choice(["C", "X", "Y"]), "qs": rng.sample(used, rng.randrange(1, len(used) + 1))})
            cases.append({"op": "export", "mode": "text", "n": n, "gates": gates})
    # an export that follows a REFUSED export on the same thread (a non-finite angle after a few good gates, a measurement group before it):
    # the text is that of the circuit alone
    nanrx = lambda q: {"g": "op", "kind": "RX", "params": [float2bits(float("nan"))], "ts": [q], "cs": []}
    hgate = lambda q: {"g": "op", "kind": "H", "params": [], "ts": [q], "cs": []}
    for n in (2, 3, 4):
        before = [[hgate(0), {"g": "meas", "basis": "X", "qs": [0, 1]}, hgate(1), nanrx(0)], [hgate(1), nanrx(1), hgate(0)]]
        for _ in range(2):
            cases.append({"op": "export", "mode": "text", "n": n, "gates": rand_circuit(rng, n, rng.randrange(1, 8), us), "before": before})
    # a circuit with SEVERAL operations that cannot be exported: the export fails the same way for every thread count and run
    for L in (60, 1000):
        n = 4
        bad1 = {"g": "op", "kind": "RX", "params": [float2bits(float("nan"))], "ts": [0], "cs": []}
        bad2 = {"g": "op", "kind": "RY", "params": [float2bits(float("inf"))], "ts": [1], "cs": [2]}
        bad3 = {"g": "op", "kind": "P", "params": [float2bits(float("-inf"))], "ts": [2], "cs": []}
        gates = rand_circuit(rng, n, L, us, allow=("op",)) + [bad1] + rand_circuit(rng, n, 40, us, allow=("op",)) + [bad2] + rand_circuit(rng, n, 40, us, allow=("op",)) + [bad3]
        cases.append({"op": "export", "mode": "determinism", "n": n, "gates": gates, "pools": [1, 2, 3, 8, 16], "rebuilds": 3, "unexportable": True})
    # several measurement groups, all bases, interleaved with gates: numbering and sizes
    for _ in range(20):
        n = rng.randrange(2, 6)
        gates = []
        for _ in range(rng.randrange(2, 7)):
            gates += rand_circuit(rng, n, rng.randrange(0, 4), us, allow=("op",))
            gates.append(exportable_gate(rng, n, us, allow=("meas",)) if True else None)
            gates[-1] = {"g": "meas", "basis": rng.choice(["C", "X", "Y"]), "qs": rng.sample(range(n), rng.randrange(0, n + 1))}
        cases.append({"op": "export", "mode": "text", "n": n, "gates": gates})
    # determinism: long circuits (the parallel lowering splits), pools 1..16, repeats, separately built equal circuits with Pauli-string gates
    for L in ([50, 400, 1000, 1500] if not ctx.thorough() else [50, 400, 1000, 2500, 5000]):
        n = rng.randrange(3, 8)
        gates = rand_circuit(rng, n, L, us)
        gates += [{"g": "pauli", "term": rand_string(rng, n, allow_empty=False, maxw=None)} for _ in range(6)]
        cases.append({"op": "export", "mode": "determinism", "n": n, "gates": gates, "pools": [1, 2, 3, 5, 7, 8, 16], "rebuilds": 6})
    for _ in range(10):
        n = 6
        gates = [{"g": "pauli", "term": {"ops": [[q, rng.choice("XYZ")] for q in range(6)], "coef": [float2bits(1.0), float2bits(0.0)]}} for _ in range(3)]
        cases.append({"op": "export", "mode": "determinism", "n": n, "gates": gates, "pools": [1, 4], "rebuilds": 8})
    # file clause
    for _ in range(6):
        n = rng.randrange(1, 5)
        cases.append({"op": "export", "mode": "file", "n": n, "gates": rand_circuit(rng, n, rng.randrange(0, 12), us)})
    # the file clause does not depend on there being a gate: circuits without gates, and with a single gate
    for n in (1, 3):
        cases.append({"op": "export", "mode": "file", "n": n, "gates": []})
        cases.append({"op": "export", "mode": "file", "n": n, "gates": [{"g": "op", "kind": "H", "params": [], "ts": [0], "cs": []}]})
    # unsupported operator: refused, nothing emitted
    cases.append({"op": "export", "mode": "text", "n": 3, "gates": [{"g": "op", "kind": "H", "params": [], "ts": [0], "cs": []},
                 {"g": "op", "kind": "Match", "params": [float2bits(0.3), float2bits(0.2), float2bits(0.1)], "ts": [0], "cs": []}]})
    return cases

def brief(c):
    return {"mode": c["mode"], "n": c["n"], "len": len(c["gates"]), "gates": [[g["g"], g.get("kind", g.get("basis", "")), g.get("ts", g.get("qs", "")), g.get("cs", "")] for g in c["gates"][:10]]}

def run_cases(ctx, cases):
    results = run_harness(cases, nproc=4, timeout=3000)
    terms, idx = [], []
    for i, (c, r) in enumerate(zip(cases, results)):
        if c["mode"] in ("text", "determinism") and r.get("r") == "ok" and len(c["gates"]) <= 160:
            terms.append("check_export_tokens %s %s %s" % (cq_string(r["text"]), cqN(c["n"]), build_instrs(c["n"], c["gates"], r["text"]))); idx.append(i)
    outs = coq_eval(ctx, QASM_EVAL_IMPORTS, terms)
    codes = [None] * len(cases)
    for i, o in zip(idx, outs): codes[i] = parseN(o)
    return results, codes

def judge(ctx, cases, results, codes):
    stats = {"tokens_equal_model": 0, "accepted": 0, "deterministic": 0, "variants": 0, "file_ok": 0, "refused": 0}
    for c, r, code in zip(cases, results, codes):
        b = brief(c)
        if r.get("r") in ("panic", "crash"):
            ctx.violations.append(("export panicked: %s" % r.get("msg", ""), {"case": c, "brief": b})); continue
        has_match = any(g.get("kind") == "Match" for g in c["gates"]) or bool(c.get("unexportable"))
        if r.get("r") == "err":
            stats["refused"] += 1
            if not has_match: ctx.violations.append(("export refused an exportable circuit: %s" % r.get("e"), {"case": c, "brief": b}))
            elif c["mode"] == "determinism" and r.get("differing"):
                ctx.violations.append(("the error an export fails with differs between runs / thread counts (%s): %s" % (r.get("e"), r["differing"][:6]), {"case": c, "brief": b}))
            continue
        if has_match and r.get("r") == "ok":
            ctx.violations.append(("a circuit with an operator that has no OpenQASM form was exported", {"case": c, "brief": b})); continue
        if c["mode"] == "determinism":
            stats["variants"] += r.get("variants", 0)
            if r.get("differing"):
                ctx.violations.append(("the exported text differs between runs / thread counts / separately built equal circuits: %s" % r["differing"][:6], {"case": c, "brief": b}))
            else: stats["deterministic"] += 1
        if c["mode"] == "file":
            p = r["paths"]
            ok = p["dir"]["ok"] and p["dir"]["returned_equal"] and p["dir"]["file_equal"] and p.get("stale", {"file_equal": False})["file_equal"] and (not p["missing"]["ok"]) and p["missing"]["io_error"] \
                 and (not p["regular_file"]["ok"]) and p["regular_file"]["io_error"] and p.get("symlink_dir", {"ok": True, "file_equal": True})["ok"] and p.get("symlink_dir", {"file_equal": True})["file_equal"] \
                 and p.get("odd_names", {"ok": True})["ok"]
            if ok: stats["file_ok"] += 1
            else: ctx.violations.append(("file clause: circuit.qasm is not byte-identical to the returned string, or a non-directory path is not an I/O error", {"case": c, "brief": b, "paths": p}))
        if code is not None:
            if code & 1: stats["tokens_equal_model"] += 1
            if code & 2: stats["accepted"] += 1
            if not (code & 1):
                ctx.violations.append(("the statements of the exported text are not: header, qubit register, one register per measurement group (numbered in order, sized to the group), "
                                       "then exactly one statement per target of each gate in circuit order", {"case": c, "brief": b, "text": r["text"][:2000]}))
            elif not (code & 2):
                ctx.violations.append(("the exported text is not accepted by the recogniser (declared-before-use / sizes / each bit assigned once)", {"case": c, "brief": b, "text": r["text"][:2000]}))
    return stats

def run(ctx):
    proof_ok = proof_check(ctx)
    if ctx.thorough() and proof_ok:
        coqchk(ctx)
    cases = gen_cases(ctx)
    results, codes = run_cases(ctx, cases)
    stats = judge(ctx, cases, results, codes)
    ctx.broken = ctx.broken[:5]
    return finish(ctx, trusted=TRUSTED, evaluations=len(cases), nontrivial=len(cases),
                  rule="random exportable circuits of 0..30(120) statements on 1..6 qubits with measurement groups in all bases and Pauli-string gates: real text lexed in Coq and compared token for token "
                       "with the export model built from the circuit; circuits of 50..1500(5000) gates exported under pools 1..16, twice each, and from 6-8 separately built equal circuits: bytes compared; "
                       "file written into a directory (with a longer, an equally long, a shorter and an empty stale file present), a missing path, a regular file, a symlink to a directory; an unsupported operator",
                  samples=[brief(c) for c in cases[:1]], extra={"verdict_counts": stats})

def replay(ctx, path):
    body = json.load(open(path))
    case = body["replay"].get("case")
    if not case:
        print("replay file carries no concrete case:", body["what"]); return 1
    results, codes = run_cases(ctx, [case])
    n0 = len(ctx.violations)
    judge(ctx, [case], results, codes)
    print(json.dumps({"brief": brief(case), "code": codes[0], "violations": [w for w, _ in ctx.violations[n0:]]}, indent=1)[:3000])
    return 1 if len(ctx.violations) > n0 else 0
