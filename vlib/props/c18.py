"""C18: exported programs are syntactically valid OpenQASM 3."""
from ..common import *
from ..qasmcases import *
import math

TRUSTED = [
    "Coq 8.16.1 kernel; vm_compute to RUN the lexer and the recogniser on the exported text",
    "the grammar subset (Spec/QasmGrammar.v) and the stdgates.inc signatures are my transcription of the OpenQASM 3 specification (qasm3Parser.g4); no reference front end is available offline",
    "lexing is evaluated per exported text, not proved for all texts; the token-level theorem takes the Display contract of f64 / usize as an assumption",
]

def gen_cases(ctx):
    rng = ctx.rng
    us = exact_unitaries(rng)
    cases = []
    mk = lambda n, gates: cases.append({"op": "export", "mode": "text", "n": n, "gates": gates})
    # every exportable gate kind with 0..3 controls
    for kind in EXPORTABLE:
        for nc in range(0, 4):
            n = 5
            g = None
            for _ in range(200):
                g = rand_gate(rng, n, [kind])
                if len(g["cs"]) == nc or kind in ("CNOT", "Toffoli"): break
            mk(n, [dict(g, g="op")])
    # every custom unitary of the pool (diagonal, anti-diagonal, symmetric, non-symmetric) with 0..2 controls, and ry_phase at
    # theta = 0 / pi (diagonal / anti-diagonal special cases of the exporter's angle extraction)
    for u in us:
        for nc in (0, 1, 2):
            mk(4, [{"g": "op", "kind": "U2", "params": u, "ts": [1], "cs": [0, 3][:nc]}])
    for kind in ("RYP", "RYPdag"):
        for th in (0.0, math.pi, -math.pi, 2 * math.pi):
            for nc in (0, 1):
                mk(3, [{"g": "op", "kind": kind, "params": [float2bits(th), float2bits(0.7)], "ts": [2], "cs": [0][:nc]}])
    # parameter sweep for every parametrised kind
    for kind in ("P", "RX", "RY", "RZ"):
        for x in PARAM_SWEEP:
            mk(2, [{"g": "op", "kind": kind, "params": [float2bits(x)], "ts": [0], "cs": rng.choice([[], [1]])}])
    # ... and for the gates exported through the built-in U: ry_phase / ry_phase_dag over the sweep in either parameter, a matrix of NaNs
    for kind in ("RYP", "RYPdag"):
        for x in PARAM_SWEEP:
            for pos in (0, 1):
                ps = [float2bits(0.7), float2bits(-1.1)]; ps[pos] = float2bits(x)
                mk(2, [{"g": "op", "kind": kind, "params": ps, "ts": [0], "cs": rng.choice([[], [1]])}])
    mk(2, [{"g": "op", "kind": "U2", "params": [float2bits(float("nan"))] * 8, "ts": [0], "cs": []}])
    # measurement groups: every basis, all / some / one qubit, several groups
    for b in ("C", "X", "Y", "U"):
        for qs in ([], [0], [2, 0], [0, 1, 2]):
            d = {"g": "meas", "basis": b, "qs": qs}
            if b == "U": d["u"] = rng.choice(us)
            mk(3, [{"g": "op", "kind": "H", "params": [], "ts": [0], "cs": []}, d, {"g": "op", "kind": "X", "params": [], "ts": [1], "cs": [0]}, dict(d)])
    mk(1, []); mk(4, [])
    # a control qubit listed twice (the simulator treats it as the same control): the operands of a gate call must stay distinct
    for kind in ("H", "X", "RZ", "P", "SWAP"):
        g = rand_gate(rng, 5, [kind])
        rest = [q for q in range(5) if q not in g["ts"]]
        c = rng.choice(rest); d = rng.choice([q for q in rest if q != c])
        for cs in ([c, c], [c, d, c], [d, c, c, d]):
            mk(5, [dict(g, g="op", cs=cs)])
    # random circuits
    for _ in range(60 if not ctx.thorough() else 400):
        n = rng.randrange(1, 7)
        mk(n, rand_circuit(rng, n, rng.randrange(1, 40 if not ctx.thorough() else 200), us))
    return cases

def brief(c):
    return {"n": c["n"], "len": len(c["gates"]), "gates": [[g["g"], g.get("kind", g.get("basis", "")), g.get("ts", g.get("qs", "")), g.get("cs", ""),
            [bits2float(p) for p in g.get("params", [])]] for g in c["gates"][:8]]}

def finite_params(c):
    return all(math.isfinite(bits2float(p)) for g in c["gates"] for p in g.get("params", []) if g["g"] == "op" and g["kind"] in ("P", "RX", "RY", "RZ", "RYP", "RYPdag", "U2"))

def run_cases(ctx, cases):
    results = run_harness(cases, nproc=8)
    terms, idx = [], []
    for i, (c, r) in enumerate(zip(cases, results)):
        if r.get("r") == "ok":
            terms.append("accepts_text %s" % cq_string(r["text"])); idx.append(i)
    outs = coq_eval(ctx, QASM_IMPORTS, terms)
    acc = [None] * len(cases)
    for i, o in zip(idx, outs): acc[i] = (o.strip() == "true")
    return results, acc

def judge(ctx, cases, results, acc):
    stats = {"exported": 0, "accepted": 0, "refused": 0}
    known = load_known()
    for c, r, a in zip(cases, results, acc):
        b = brief(c)
        if r.get("r") in ("panic", "crash"):
            ctx.violations.append(("export panicked: %s" % r.get("msg", ""), {"case": c, "brief": b})); continue
        if r.get("r") == "err":
            stats["refused"] += 1
            if finite_params(c):
                ctx.violations.append(("export refused an exportable circuit: %s" % r.get("e"), {"case": c, "brief": b}))
            continue
        if r.get("r") != "ok": continue
        stats["exported"] += 1
        if a: stats["accepted"] += 1
        else:
            line = next((l for l in r["text"].splitlines() if l and not l.startswith(("OPENQASM", "include", "def", "//", "qubit", "bit"))), "")
            ctx.violations.append(("the exported program is not accepted by the OpenQASM 3 recogniser (first body line: %r)" % line[:80], {"case": c, "brief": b, "text": r["text"][:1500]}))
    return stats

def run(ctx):
    proof_ok = proof_check(ctx)
    if ctx.thorough() and proof_ok:
        coqchk(ctx)
    cases = gen_cases(ctx)
    results, acc = run_cases(ctx, cases)
    stats = judge(ctx, cases, results, acc)
    ctx.broken = ctx.broken[:5]
    return finish(ctx, trusted=TRUSTED, evaluations=len(cases), nontrivial=len(cases),
                  rule="every exportable gate kind with 0..3 controls; P/RX/RY/RZ over the parameter sweep {0, -0.0, 1e-7, 5e-324, 1e22, f64::MAX, -2.5, pi, 1/3, 123456.789, NaN, +-inf}; "
                       "measurement groups in all four bases on all / some / one qubit, several groups; empty circuits; random circuits of 1..40(200) statements; "
                       "the real exported bytes are lexed and recognised inside Coq",
                  samples=[brief(c) for c in cases[:1]], extra={"verdict_counts": stats})

def replay(ctx, path):
    body = json.load(open(path))
    case = body["replay"].get("case")
    if not case:
        print("replay file carries no concrete case:", body["what"]); return 1
    results, acc = run_cases(ctx, [case])
    print(results[0].get("text", results[0])); print("accepted:", acc[0])
    return 0 if acc[0] else 1
