"""C03: results do not depend on execution path, thread count or scheduling."""
from ..common import *
from ..gatecases import *

TRUSTED = [
    "Coq 8.16.1 kernel; vm_compute only to RUN the model on the cases",
    "rayon library assumption: indexed parallel iterators (par_iter().map/flat_map/chunks().collect(), par_iter_mut) return what the sequential iterator returns; reduce uses some binary split tree",
    "the work-stealing schedule is sampled (pool sizes, repeats, concurrent callers), not controlled; data-race freedom is Rust's type system",
    "hand-written model (Model/Gates.v) tied to operator.rs by this correspondence run; threshold hook forces each CPU path",
]
POOLS_Q = [1, 2, 3, 5, 8, 16]
POOLS_T = [1, 2, 3, 5, 8, 16, 32, 61]

def gen_gate_cases(ctx):
    rng = ctx.rng
    pools = POOLS_T if ctx.thorough() else POOLS_Q
    cases = []
    def add(kind, n, ts, cs, style="generic"):
        c = mk_case(kind, rand_params(rng, kind), n, ts, cs, rand_vec(rng, n, style), 64)
        c["op"] = "gate_sched"; c["pools"] = pools; c["callers"] = 8 if ctx.thorough() else 4
        try:
            pl = placements(n, kind)
            c["warm"] = [[list(a), list(b)] for a, b in rng.sample(pl, min(2, len(pl)))]       # earlier calls on the same thread
        except Exception:
            c["warm"] = []
        cases.append(c)
    for n in (1, 2, 3):
        for kind in KINDS:
            for ts, cs in placements(n, kind):
                cs = list(cs); rng.shuffle(cs)
                add(kind, n, ts, cs)
    for n, cnt in ([(4, 150), (5, 60), (6, 40), (7, 30), (8, 20), (10, 8), (11, 4)] if not ctx.thorough() else [(4, 600), (5, 300), (6, 200), (7, 100), (8, 80), (10, 30), (11, 20), (12, 10)]):
        for _ in range(cnt):
            kind = rng.choice(KINDS)
            qs = list(range(n)); rng.shuffle(qs)
            if kind == "SWAP": ts, rest = qs[:2], qs[2:]
            elif kind == "Match":
                if n < 2: continue
                t = rng.randrange(n - 1); ts = [t]; rest = [q for q in range(n) if q not in (t, t + 1)]
            else: ts, rest = qs[:1], qs[1:]
            if kind == "CNOT" and len(rest) < 1: continue
            if kind == "Toffoli" and len(rest) < 2: continue
            k = 1 if kind == "CNOT" else 2 if kind == "Toffoli" else rng.randrange(0, min(4, len(rest) + 1))
            cs = rng.sample(rest, k)
            if cs and kind not in ("CNOT", "Toffoli") and rng.random() < 0.15:       # a control listed twice: the same control on every path
                cs = cs + [rng.choice(cs)]; rng.shuffle(cs)
            add(kind, n, ts, cs, style=rng.choice(["generic", "generic", "generic", "tiny", "mixed"]))
    # every kind with a repeated control (accepted as the same control), both paths / all pools
    for kind in KINDS:
        if kind in ("CNOT", "Toffoli"): continue
        for n in (4, 5):
            con = [p for p in placements(n, kind) if len(p[1]) in (1, 2)]
            ts, cs = rng.choice(con)
            for cs2 in ([cs[0]] * 2 + list(cs[1:]), list(cs) + [cs[-1]], [cs[0]] + list(cs) + [cs[0]]):
                add(kind, n, list(ts), cs2)
    # special parameter values in single positions (0, -0, pi, quarter turns): a shortcut taken on one path only shows here
    from ..gatecases import NPARAMS
    import math as _m
    for kind in KINDS:
        k = NPARAMS.get(kind, 0)
        if not k or kind == "U2": continue
        for pos in range(k):
            for special in (0.0, -0.0, _m.pi, -_m.pi / 2, 2 * _m.pi):
                n = rng.choice([3, 4])
                ts, cs = rng.choice(placements(n, kind))
                add(kind, n, list(ts), list(cs), style=rng.choice(["generic", "axis"]))
                ps = [bits2float(x) for x in cases[-1]["params"]]; ps[pos] = special
                cases[-1]["params"] = [float2bits(x) for x in ps]
    # invalid arguments too: the error value must be the same on both paths (SWAP with a repeated target: the
    # HashSet and the nested-loop duplicate detection)
    for n in (2, 3, 4):
        for kind in ("SWAP", "H", "CNOT", "Match"):
            for ts, cs in [([0, 0], []), ([1, 1], [0]), ([n], []), ([0], [0]), ([0, 1], [1]), ([], [])]:
                add(kind, n, ts, cs)
    return cases


# ---------------------------------------------------------------- generic families via the harness' "sched" wrapper
VOLATILE = ("readback", "perm_agree")   # bookkeeping that depends on the per-call hasher state, not on the schedule
def close_json(a, b, tol=1e-12):
    """two result objects equal except float reductions (hex fields under key 'z' or 'red') within tol"""
    if type(a) != type(b): return False
    if isinstance(a, dict):
        a = {k: v for k, v in a.items() if k not in VOLATILE}; b = {k: v for k, v in b.items() if k not in VOLATILE}
        if set(a) != set(b): return False
        for k in a:
            if k == "v":
                # amplitudes: equal as numbers (a fresh HashMap per call may iterate in another order, which can flip the sign of a zero)
                if len(a[k]) != len(b[k]) or any(bits2float(p) != bits2float(q) for p, q in zip(a[k], b[k])): return False
                continue
            if k in ("z", "red"):
                xa, xb = [bits2float(x) for x in a[k]], [bits2float(x) for x in b[k]]
                if len(xa) != len(xb) or any(abs(p - q) > tol * max(1.0, abs(p)) for p, q in zip(xa, xb)): return False
            elif not close_json(a[k], b[k], tol): return False
        return True
    if isinstance(a, list):
        return len(a) == len(b) and all(close_json(x, y, tol) for x, y in zip(a, b))
    return a == b

def sched_family(ctx, name, inner_cases, stats, describe_fn):
    pools = POOLS_T if ctx.thorough() else POOLS_Q
    cases = [{"op": "sched", "inner": c, "pools": pools, "callers": 8 if ctx.thorough() else 4} for c in inner_cases]
    results = run_harness(cases, nproc=4)
    st = {"cases": len(cases), "variants": 0, "bit_identical": 0, "reductions_within_1e-12": 0, "differ": 0}
    for c, r in zip(inner_cases, results):
        if r.get("r") != "sched":
            ctx.violations.append(("[%s] harness failure/panic: %s" % (name, str(r)[:200]), {"family": name, "case": c, "describe": describe_fn(c)})); continue
        st["variants"] += r["variants"]
        ds = r["distinct"]
        if any(d["res"].get("r") in ("panic", "crash") for d in ds):
            ctx.violations.append(("[%s] panic under some schedule" % name, {"family": name, "case": c, "describe": describe_fn(c), "labels": [d["label"] for d in ds]}))
        elif r["ndistinct"] == 1:
            st["bit_identical"] += 1
        elif r["ndistinct"] <= 64 and all(close_json(ds[0]["res"], d["res"], 0.0) for d in ds[1:]):
            st["bit_identical"] += 1
        elif r["ndistinct"] <= 64 and all(close_json(ds[0]["res"], d["res"]) for d in ds[1:]):
            st["reductions_within_1e-12"] += 1
        else:
            st["differ"] += 1
            ctx.violations.append(("[%s] the same call returned different values under different paths/pools/callers: %s" % (name, [d["label"] for d in ds]),
                                   {"family": name, "case": c, "describe": describe_fn(c), "labels": [d["label"] for d in ds]}))
    stats[name] = st
    return st

def gen_pauli_inner(ctx):
    from ..paulicases import rand_string, rand_coef
    rng = ctx.rng
    out = []
    for n, cnt in ([(2, 10), (4, 15), (6, 15), (7, 15), (8, 6), (10, 3)] if not ctx.thorough() else [(2, 30), (4, 60), (6, 60), (7, 60), (8, 30), (10, 10), (11, 6)]):
        for _ in range(cnt):
            k = rng.choice([1, 2, 3, 5, 9, 17])
            mode = rng.choice(["apply", "sum_apply", "expect", "expect"])
            terms = [rand_string(rng, n) for _ in range(1 if mode == "apply" else k)]
            out.append({"op": "pauli", "mode": mode, "n": n, "v": rand_vec(rng, n, "generic"), "terms": terms, "thr": 10})
    return out
def describe_pauli(c):
    return {"mode": c["mode"], "n": c["n"], "nterms": len(c["terms"])}


def gen_state_inner(ctx):
    rng = ctx.rng
    out = []
    for n1, n2 in ([(1, 2), (3, 3), (3, 4), (4, 4), (2, 7), (5, 5), (6, 5)] if not ctx.thorough() else [(1, 2), (3, 3), (3, 4), (4, 4), (2, 7), (5, 5), (6, 5), (6, 6), (7, 6)]):
        out.append({"op": "state", "mode": "tensor", "a": {"n": n1, "v": rand_vec(rng, n1, "normalised")}, "b": {"n": n2, "v": rand_vec(rng, n2, "normalised")}})
    for n in ([3, 6, 7, 8, 10, 11] if not ctx.thorough() else [3, 6, 7, 8, 10, 11, 12, 13]):
        for _ in range(3):
            out.append({"op": "state", "mode": "inner", "a": {"n": n, "v": rand_vec(rng, n, "generic")}, "b": {"n": n, "v": rand_vec(rng, n, "generic")}})
            out.append({"op": "state", "mode": "ctor", "kind": "new", "v": rand_vec(rng, n, "normalised"), "args": []})
    return out
def describe_state(c):
    return {"mode": c["mode"], "n": [c[k]["n"] for k in ("a", "b") if k in c]}

def lattice_family(ctx, stats):
    """Hamiltonian construction: the same builder call under pools of different sizes must return the same SumOp
    (same terms, same order, same coefficient bits; factor order inside a term is canonicalised - it is a HashMap)"""
    rng = ctx.rng
    threads = [1, 2, 3, 4, 5, 7, 8, 16] if not ctx.thorough() else [1, 2, 3, 4, 5, 6, 7, 8, 11, 13, 16, 32]
    shapes = []
    for n in ([2, 3, 4, 5, 7, 9, 16, 17, 24, 33] if not ctx.thorough() else list(range(2, 41))):
        p5 = [float2bits(rng.uniform(-2, 2)) for _ in range(5)]
        shapes.append(("heisenberg_1d", n, 0, p5)); shapes.append(("ising_1d_uniform", n, 0, p5[:3]))
    for n in (2, 3, 4, 5):
        for m in (2, 3, 5):
            p5 = [float2bits(rng.uniform(-2, 2)) for _ in range(5)]
            shapes.append(("heisenberg_2d", n, m, p5)); shapes.append(("ising_2d_uniform", n, m, p5[:3]))
    cases = [{"op": "lattice", "kind": k, "n": n, "m": m, "threads": t, "p": p, "h": [], "j": []} for (k, n, m, p) in shapes for t in threads]
    res = run_harness(cases, nproc=4)
    st = {"shapes": len(shapes), "calls": len(cases), "identical": 0, "differ": 0}
    canon = lambda r: json.dumps([[sorted(t["ops"]), t["coef"]] for t in r.get("terms", [])]) if r.get("r") == "ok" else json.dumps(r)
    for i, sh in enumerate(shapes):
        grp = list(zip(threads, res[i * len(threads):(i + 1) * len(threads)]))
        base = canon(grp[0][1])
        bad = [t for t, r in grp if canon(r) != base]
        if bad:
            st["differ"] += 1
            ctx.violations.append(("[hamiltonian construction] %s n=%d m=%d returns a different SumOp with %s worker threads than with %d" % (sh[0], sh[1], sh[2], bad, grp[0][0]),
                                   {"family": "lattice", "kind": sh[0], "n": sh[1], "m": sh[2], "p": sh[3], "threads_differing": bad}))
        else:
            st["identical"] += 1
    stats["hamiltonian construction (thread counts)"] = st

def run(ctx):
    proof_ok = proof_check(ctx)
    if ctx.thorough() and proof_ok:
        coqchk(ctx)
    cases = gen_gate_cases(ctx)
    results = run_harness(cases, nproc=4)
    # model comparison: the base result (sequential path) against the model's sequential path
    terms, idx = [], []
    for i, (c, r) in enumerate(zip(cases, results)):
        if r["r"] in ("ok", "err"):
            terms.append(coq_gate_term(c, r)); idx.append(i)
    outs = coq_eval(ctx, GATE_IMPORTS, terms)
    stats = {"identical": 0, "differ": 0, "panic": 0, "model_exact": 0, "variants_total": 0}
    for i, o in zip(idx, outs):
        code = parseN(o)
        c, r = cases[i], results[i]
        stats["variants_total"] += r.get("variants", 0)
        if code & 4: stats["model_exact"] += 1
        if r.get("identical"):
            stats["identical"] += 1
        else:
            stats["differ"] += 1
            ctx.violations.append(("the same gate application returned different values under different paths/pools/callers: base %s vs %s"
                                   % (r.get("base"), r.get("differing")), {"case": c, "describe": describe(c), "differing": r.get("differing")}))
        if not (code & 1) or not (code & 2):
            ctx.broken.append("correspondence model-vs-impl differs on %s" % json.dumps(describe(c)))
    for c, r in zip(cases, results):
        if r["r"] in ("panic", "crash"):
            stats["panic"] += 1
            ctx.violations.append(("panic under some schedule: %s" % r.get("msg"), {"case": c, "describe": describe(c)}))
    fam = {}
    sched_family(ctx, "pauli/sumop apply + expectation", gen_pauli_inner(ctx), fam, describe_pauli)
    lattice_family(ctx, fam)
    sched_family(ctx, "tensor product / inner product / State::new norm check", gen_state_inner(ctx), fam, describe_state)
    ctx.broken = ctx.broken[:5]
    by = {}
    for c in cases:
        by["%s/n%d" % (c["kind"], c["n"])] = by.get("%s/n%d" % (c["kind"], c["n"]), 0) + 1
    distinct = len({json.dumps([c["kind"], c["n"], c["ts"], sorted(c["cs"])]) for c in cases})
    return finish(ctx, trusted=TRUSTED, evaluations=stats["variants_total"], nontrivial=distinct,
                  rule="gate application: exhaustive placements n=1..3 x 20 kinds, sampled n=4..11(12), invalid arguments; each case is run on both CPU paths "
                       "(threshold hook) x rayon pools %s x 2 repeats + concurrent callers on the shared input; all results compared bit for bit, "
                       "one of them with the Coq model. evaluations = number of real apply() calls compared." % (POOLS_T if ctx.thorough() else POOLS_Q),
                  samples=[dict(describe(c), identical=r.get("identical"), variants=r.get("variants")) for c, r in list(zip(cases, results))[:3]],
                  extra={"verdict_counts": stats, "cases": len(cases), "families": ["gate application (all operators)"] + list(fam), "family_stats": fam, "max_qubits": max(c["n"] for c in cases)})

def replay(ctx, path):
    body = json.load(open(path))
    case = body["replay"].get("case")
    if not case:
        print("replay file carries no concrete case:", body["what"]); return 1
    if body["replay"].get("family") == "lattice":
        rp = body["replay"]
        rs = run_harness([{"op": "lattice", "kind": rp["kind"], "n": rp["n"], "m": rp["m"], "threads": t, "p": rp["p"], "h": [], "j": []} for t in [1] + rp["threads_differing"]])
        cs = [json.dumps([[sorted(t["ops"]), t["coef"]] for t in r.get("terms", [])]) for r in rs]
        print("distinct results:", len(set(cs))); return 0 if len(set(cs)) == 1 else 1
    if body["replay"].get("family"):
        st = {}
        n0 = len(ctx.violations)
        sched_family(ctx, body["replay"]["family"], [case], st, lambda c: {})
        print(json.dumps(st, indent=1)); return 1 if len(ctx.violations) > n0 else 0
    r = run_harness([case])[0]
    print(json.dumps({"describe": describe(case), "identical": r.get("identical"), "differing": r.get("differing"), "r": r["r"]}, indent=1))
    return 0 if r.get("identical") else 1
