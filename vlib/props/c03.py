"""C03: results do not depend on execution path, thread count or scheduling."""
from ..common import *
from ..gatecases import *

TRUSTED = [
    "Coq 8.16.1 kernel; vm_compute only to RUN the model on the cases",
    "rayon library assumption: indexed parallel iterators (par_iter().map/flat_map/chunks().collect(), par_iter_mut) return what the sequential iterator returns; reduce uses some binary split tree",
    "the work-stealing schedule is sampled (pool sizes, repeats, concurrent callers), not controlled; data-race freedom is Rust's type system",
    "hand-written model (Model/Gates.v) tied to operator.rs by this correspondence run; threshold hook forces each CPU path",
]
POOLS_Q = [1, 2, 3, 5, 8, 16]
POOLS_T = [1, 2, 3, 5, 8, 16, 32, 61]

def gen_gate_cases(ctx):
    rng = ctx.rng
    pools = POOLS_T if ctx.thorough() else POOLS_Q
    cases = []
    def add(kind, n, ts, cs, style="generic"):
        c = mk_case(kind, rand_params(rng, kind), n, ts, cs, rand_vec(rng, n, style), 64)
        c["op"] = "gate_sched"; c["pools"] = pools; c["callers"] = 8 if ctx.thorough() else 4
        cases.append(c)
    for n in (1, 2, 3):
        for kind in KINDS:
            for ts, cs in placements(n, kind):
                cs = list(cs); rng.shuffle(cs)
                add(kind, n, ts, cs)
    for n, cnt in ([(4, 150), (5, 60), (6, 40), (7, 30), (8, 20), (10, 8), (11, 4)] if not ctx.thorough() else [(4, 600), (5, 300), (6, 200), (7, 100), (8, 80), (10, 30), (11, 20), (12, 10)]):
        for _ in range(cnt):
            kind = rng.choice(KINDS)
            qs = list(range(n)); rng.shuffle(qs)
            if kind == "SWAP": ts, rest = qs[:2], qs[2:]
            elif kind == "Match":
                if n < 2: continue
                t = rng.randrange(n - 1); ts = [t]; rest = [q for q in range(n) if q not in (t, t + 1)]
            else: ts, rest = qs[:1], qs[1:]
            if kind == "CNOT" and len(rest) < 1: continue
            if kind == "Toffoli" and len(rest) < 2: continue
            k = 1 if kind == "CNOT" else 2 if kind == "Toffoli" else rng.randrange(0, min(4, len(rest) + 1))
            add(kind, n, ts, rng.sample(rest, k))
    # invalid arguments too: the error value must be the same on both paths (SWAP with a repeated target: the
    # HashSet and the nested-loop duplicate detection)
    for n in (2, 3, 4):
        for kind in ("SWAP", "H", "CNOT", "Match"):
            for ts, cs in [([0, 0], []), ([1, 1], [0]), ([n], []), ([0], [0]), ([0, 1], [1]), ([], [])]:
                add(kind, n, ts, cs)
    return cases

def run(ctx):
    proof_ok = proof_check(ctx)
    if ctx.thorough() and proof_ok:
        coqchk(ctx)
    cases = gen_gate_cases(ctx)
    results = run_harness(cases, nproc=4)
    # model comparison: the base result (sequential path) against the model's sequential path
    terms, idx = [], []
    for i, (c, r) in enumerate(zip(cases, results)):
        if r["r"] in ("ok", "err"):
            terms.append(coq_gate_term(c, r)); idx.append(i)
    outs = coq_eval(ctx, GATE_IMPORTS, terms)
    stats = {"identical": 0, "differ": 0, "panic": 0, "model_exact": 0, "variants_total": 0}
    for i, o in zip(idx, outs):
        code = parseN(o)
        c, r = cases[i], results[i]
        stats["variants_total"] += r.get("variants", 0)
        if code & 4: stats["model_exact"] += 1
        if r.get("identical"):
            stats["identical"] += 1
        else:
            stats["differ"] += 1
            ctx.violations.append(("the same gate application returned different values under different paths/pools/callers: base %s vs %s"
                                   % (r.get("base"), r.get("differing")), {"case": c, "describe": describe(c), "differing": r.get("differing")}))
        if not (code & 1) or not (code & 2):
            ctx.broken.append("correspondence model-vs-impl differs on %s" % json.dumps(describe(c)))
    for c, r in zip(cases, results):
        if r["r"] in ("panic", "crash"):
            stats["panic"] += 1
            ctx.violations.append(("panic under some schedule: %s" % r.get("msg"), {"case": c, "describe": describe(c)}))
    ctx.broken = ctx.broken[:5]
    by = {}
    for c in cases:
        by["%s/n%d" % (c["kind"], c["n"])] = by.get("%s/n%d" % (c["kind"], c["n"]), 0) + 1
    distinct = len({json.dumps([c["kind"], c["n"], c["ts"], sorted(c["cs"])]) for c in cases})
    return finish(ctx, trusted=TRUSTED, evaluations=stats["variants_total"], nontrivial=distinct,
                  rule="gate application: exhaustive placements n=1..3 x 20 kinds, sampled n=4..11(12), invalid arguments; each case is run on both CPU paths "
                       "(threshold hook) x rayon pools %s x 2 repeats + concurrent callers on the shared input; all results compared bit for bit, "
                       "one of them with the Coq model. evaluations = number of real apply() calls compared." % (POOLS_T if ctx.thorough() else POOLS_Q),
                  samples=[dict(describe(c), identical=r.get("identical"), variants=r.get("variants")) for c, r in list(zip(cases, results))[:3]],
                  extra={"verdict_counts": stats, "cases": len(cases), "families": ["gate application (all operators)"], "max_qubits": max(c["n"] for c in cases)})

def replay(ctx, path):
    body = json.load(open(path))
    case = body["replay"].get("case")
    if not case:
        print("replay file carries no concrete case:", body["what"]); return 1
    r = run_harness([case])[0]
    print(json.dumps({"describe": describe(case), "identical": r.get("identical"), "differing": r.get("differing"), "r": r["r"]}, indent=1))
    return 0 if r.get("identical") else 1
