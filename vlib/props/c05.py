"""C05: invalid qubit arguments yield errors, valid ones are accepted, nothing panics."""
from ..common import *
from ..gatecases import *

TRUSTED = [
    "Coq 8.16.1 kernel; vm_compute only to RUN the model and the validity Spec (args_valid) on the cases",
    "hand-written model Model/Validate.v + Model/Gates.v (apply_op) tied to operator.rs by this correspondence run",
    "harness crate /verif/harness (catch_unwind around the real call, overflow-checks and debug-assertions ON)",
    "model follows checked (debug) integer semantics; usize is modelled as N with the guards of the partial operations proved (C05_partial_ops_guarded)",
]
UMAX = 2**64 - 1

def boundary_values(n):
    vals = {0, 1, max(n - 2, 0), n - 1 if n >= 1 else 0, n, n + 1, 63, 64, 2**32, UMAX}
    return sorted(vals)

def gen_cases(ctx):
    rng = ctx.rng
    cases = []
    sizes = [1, 2, 3, 4, 5] if not ctx.thorough() else [1, 2, 3, 4, 5, 6, 7]
    def vec(n):
        return rand_vec(rng, n, "normalised")
    for n in sizes:
        bv = boundary_values(n)
        inr = list(range(n))
        for kind in KINDS:
            params = rand_params(rng, kind)
            v = vec(n)
            combos = []
            # arity sweep of the target list (0..3 entries), values in range
            for k in range(0, 4):
                combos.append(([rng.choice(inr) for _ in range(k)], []))
                combos.append(([rng.choice(inr) for _ in range(k)], [rng.choice(inr)]))
            # each boundary value in the target role and in the control role
            for b in bv:
                combos.append(([b], []))
                combos.append(([b], [rng.choice(inr)]))
                combos.append(([rng.choice(inr)], [b]))
                combos.append(([rng.choice(inr)], [rng.choice(inr), b]))
                combos.append(([rng.choice(inr), b], []))
                combos.append(([b, rng.choice(inr)], [rng.choice(inr)]))
                combos.append(([rng.choice(inr), rng.choice(inr)], [b]))
            # control = target, control = t+1 (matchgate partner), repeated targets, repeated controls
            for t in inr:
                combos.append(([t], [t]))
                combos.append(([t], [t + 1]))
                combos.append(([t], [(t + 1) % n, t]))
                combos.append(([t, t], []))
                for t2 in inr:
                    combos.append(([t, t2], []))
                    combos.append(([t, t2], [t2]))
                    combos.append(([t, t2], [t]))
                    combos.append(([t], [t2]))
                    combos.append(([t], [t2, t2]))
                    for c3 in inr[:3]:
                        combos.append(([t], [t2, c3]))
                        combos.append(([t, t2], [c3]))
            # a mostly-valid random stream
            for _ in range(6):
                pl = placements(n, kind)
                if pl:
                    ts, cs = rng.choice(pl)
                    cs = list(cs); rng.shuffle(cs)
                    combos.append((ts, cs))
            seen = set()
            for ts, cs in combos:
                key = (tuple(ts), tuple(cs))
                if key in seen:
                    continue
                seen.add(key)
                for thr in (10, 1):
                    if thr == 1 and rng.random() < 0.5:
                        continue
                    cases.append(mk_case(kind, params, n, [str(x) for x in ts], [str(x) for x in cs], v, thr))
    # real threshold: 10..11 qubits (HashSet duplicate detection branch on the shipped threshold)
    for n in ([10] if not ctx.thorough() else [10, 11, 12]):
        v = vec(n)
        for kind in KINDS:
            params = rand_params(rng, kind)
            for ts, cs in [([0, 0], []), ([n - 1], [n]), ([n], []), ([3], [3]), ([n - 1], []), ([n - 2], [n - 1]), ([], []), ([1, 2], [2]), ([2, 1], [0]), ([UMAX], [])]:
                cases.append(mk_case(kind, params, n, [str(x) for x in ts], [str(x) for x in cs], v, 10))
    return cases

def classify(res):
    return {"ok": "Ok", "err": "Err", "panic": "Panic", "crash": "Panic"}.get(res["r"], res["r"])

def run(ctx):
    proof_ok = proof_check(ctx)
    if ctx.thorough() and proof_ok:
        coqchk(ctx)
    cases = gen_cases(ctx)
    for c in cases:
        c["ts"] = [int(x) if int(x) < 2**53 else x for x in c["ts"]]
        c["cs"] = [int(x) if int(x) < 2**53 else x for x in c["cs"]]
    results, codes = run_gate_cases(ctx, cases)
    known = load_known()
    stats = {"Ok": 0, "Err": 0, "Panic": 0, "ctor_err": 0, "class_agrees_with_model": 0, "spec_valid_agrees": 0, "err_variant_same_as_model": 0}
    for case, res, code in zip(cases, results, codes):
        cl = classify(res)
        stats[cl] = stats.get(cl, 0) + 1
        if code is None:
            continue
        d = describe(case)
        if cl == "Panic":
            ctx.violations.append(("panic instead of an error/state: %s" % res.get("msg", res.get("stderr", "")), {"case": case, "impl": res, "describe": d}))
            continue
        if code & 1: stats["class_agrees_with_model"] += 1
        if code & 16: stats["spec_valid_agrees"] += 1
        if not (code & 16):
            what = ("invalid arguments accepted (a state was returned)" if cl == "Ok" else "valid arguments rejected with %s" % res.get("e"))
            ctx.violations.append((what, {"case": case, "impl": {k: v for k, v in res.items() if k != "v"}, "describe": d}))
        elif cl == "Ok" and not (code & 8):
            ctx.broken.append("accepted call returned amplitudes differing from the Spec: %s" % json.dumps(d))
        elif not (code & 1):
            ctx.broken.append("outcome class differs from the model (Spec still met): %s" % json.dumps(d))
    # ---- circuits: building validates every index of every gate variant; execution of a built circuit never panics ----
    from . import c06
    from .c02 import exact_unitaries
    rng = ctx.rng
    us = exact_unitaries(rng)
    ccases = []
    for n in (1, 2, 3, 4):
        for _ in range(40 if not ctx.thorough() else 200):
            L = rng.randrange(1, 7)
            bad_at = rng.randrange(L) if rng.random() < 0.6 else None
            gates = [c06.rand_any_gate(rng, n, us, bad=(k == bad_at)) for k in range(L)]
            # parametric gates given directly as enum variants: 0, 1 or several targets, in range
            for _ in range(rng.choice([0, 0, 1, 2])):
                kind = rng.choice(["RX", "RY", "RZ", "P", "RyPhase", "RyPhaseDag", "Match"])
                m = rng.choice([0, 1, 1, 2])
                pool = list(range(n if kind != "Match" else max(n - 1, 0)))
                ts = rng.sample(pool, min(m, len(pool)))
                rest = [q for q in range(n) if q not in ts and (kind != "Match" or all(q != t + 1 for t in ts))]
                pcs = rng.sample(rest, rng.randrange(0, min(2, len(rest)) + 1))
                if rng.random() < 0.3:                         # a parametric gate addressing a qubit outside the circuit: as a control or as a target
                    far = rng.choice([n, n + 1, 63, 64, 2**40] + ([2**64 - 1] if kind != "Match" else []))
                    if rng.random() < 0.6 or not ts: pcs = pcs + [far]
                    else: ts = ts[:-1] + [far]
                gates.insert(rng.randrange(len(gates) + 1), {"g": "param", "kind": kind, "vals": [float2bits(rng.uniform(-3, 3)) for _ in range(3)], "ts": ts, "cs": pcs})
            nm = sum(1 for g in gates if g["g"] == "meas")
            ccases.append({"op": "circuit", "mode": "exec", "n": n, "cn": n if rng.random() < 0.8 else n + rng.choice([1, 2]), "v": rand_vec(rng, n, "normalised"),
                           "gates": gates, "draws": [float2bits(0.37)] * nm, "split": 0, "thr": rng.choice([10, 1])})
    # gates built directly with the wrong NUMBER of targets / controls (in range): building accepts them (it checks indices), executing
    # the circuit must report the error - never return a state
    from ..gatecases import KINDS as _KINDS
    for kind in _KINDS:
        want_t = 2 if kind == "SWAP" else 1
        bad = [([], []), ([], [0])] + ([([0, 1], [])] if want_t == 1 else [([0], []), ([0, 1, 2], [])])
        if kind == "CNOT": bad += [([0], []), ([0], [1, 2])]
        if kind == "Toffoli": bad += [([0], [1]), ([0], [])]
        for ts, cs in bad:
            n = 3
            g = dict(c06.rand_gate(rng, n, [kind]), g="op"); g["ts"], g["cs"] = ts, cs
            pre = [c06.rand_any_gate(rng, n, us) for _ in range(rng.randrange(0, 3))]
            pre = [x for x in pre if x["g"] != "meas"]
            ccases.append({"op": "circuit", "mode": "exec", "n": n, "cn": n, "v": rand_vec(rng, n, "normalised"), "gates": pre + [g], "draws": [], "split": 0, "thr": rng.choice([10, 1]),
                           "arity_bad": True})
    # states WIDER than the circuit (every gate index is valid on the wider register, so nothing else complains)
    for n in (2, 3, 4):
        for L in (0, 1, 3):
            gates = [x for x in (c06.rand_any_gate(rng, n - 1, us) for _ in range(L)) if x["g"] != "meas"]
            ccases.append({"op": "circuit", "mode": "exec", "n": n, "cn": n - 1, "v": rand_vec(rng, n, "normalised"), "gates": gates, "draws": [], "split": 0, "thr": 10})
    # circuits without gates: the width check does not depend on there being a gate to apply
    for n in (1, 2, 3, 4):
        for cn in (n, n + 1, max(1, n - 1), n + 2):
            ccases.append({"op": "circuit", "mode": "exec", "n": n, "cn": cn, "v": rand_vec(rng, n, "normalised"), "gates": [], "draws": [], "split": 0, "thr": 10})
    # Pauli-string entry points: a factor outside the register is an error through every entry point, also when the exponent
    # or the time step is exactly zero (nothing to do is not a licence to skip validation)
    pcases = []
    z, one = [float2bits(0.0), float2bits(0.0)], [float2bits(1.0), float2bits(0.0)]
    for n in (1, 2, 3, 5):
        for far in (n, n + 1, 63, 64, 2**40, 2**64 - 1):
            ops = [[q, rng.choice("XYZ")] for q in rng.sample(range(n), rng.randrange(0, n))] + [[far, rng.choice("XYZ")]]
            rng.shuffle(ops)
            for coef in (one, z, [float2bits(0.3), float2bits(-0.2)]):
                t = {"ops": ops, "coef": coef}
                base = {"op": "pauli_exp", "n": n, "v": rand_vec(rng, n, "normalised"), "term": t, "thr": rng.choice([10, 1])}
                pcases.append(dict(base, mode="exp"))
                pcases.append(dict(base, mode="exp_factor", factor=rng.choice([z, one, [float2bits(0.0), float2bits(0.7)]])))
            for dt in (0.0, -0.0, 0.4):
                pcases.append({"op": "pauli_exp", "mode": "neg_i_dt", "n": n, "v": rand_vec(rng, n, "normalised"), "term": {"ops": ops, "coef": [float2bits(0.8), float2bits(0.0)]},
                               "dt": float2bits(dt), "thr": 10})
                for order in (1, 2):
                    good = {"ops": [[0, "Z"]], "coef": [float2bits(0.4), float2bits(0.0)]}
                    pcases.append({"op": "trotter", "mode": "step", "n": n, "v": rand_vec(rng, n, "normalised"), "terms": [good, {"ops": ops, "coef": [float2bits(0.8), float2bits(0.0)]}],
                                   "dt": float2bits(dt), "order": order, "k": 1, "thr": 10})
    pres = run_harness(pcases, nproc=8)
    pst = {"cases": len(pcases), "errors": 0}
    for c, r in zip(pcases, pres):
        if r.get("r") == "err": pst["errors"] += 1
        else:
            what = "panic" if r.get("r") in ("panic", "crash") else "a state"
            ctx.violations.append(("a Pauli string with a factor outside the register gave %s instead of an error (%s)" % (what, c["mode"]),
                                   {"pauli_case": c, "impl": {k: r.get(k) for k in ("r", "e", "msg")}}))
    stats["pauli_entry_points"] = pst
    # export of ANY built circuit never panics: every operator kind with every target / control arity (all indices in range, so
    # building accepts them; execution and export may refuse, but must not panic). Time evolution is the documented exception.
    xcases = []
    for kind in KINDS:
        for nt in (0, 1, 2, 3, 4):
            for nc in (0, 1, 2):
                n = 5
                qs = rng.sample(range(n), min(n, nt + nc))
                ts, cs = qs[:nt], qs[nt:nt + nc]
                if rng.random() < 0.3 and ts: cs = cs + [ts[0]]            # overlapping control / target: building only checks the range
                g = {"g": "op", "kind": kind, "params": rand_params(rng, kind), "ts": ts, "cs": cs}
                xcases.append({"op": "export", "mode": "text", "n": n, "gates": [{"g": "op", "kind": "H", "params": [], "ts": [0], "cs": []}, g]})
    for b in ("C", "X", "Y"):
        xcases.append({"op": "export", "mode": "text", "n": 3, "gates": [{"g": "meas", "basis": b, "qs": []}, {"g": "meas", "basis": b, "qs": [2, 0]}]})
    xres = run_harness(xcases, nproc=8)
    xst = {"cases": len(xcases), "exported": 0, "refused": 0}
    for c, r in zip(xcases, xres):
        if r.get("r") == "ok": xst["exported"] += 1
        elif r.get("r") in ("err", "build_err", "ctor_err"): xst["refused"] += 1
        else:
            g = c["gates"][-1]
            ctx.violations.append(("export of a built circuit panicked (%s with targets %s controls %s): %s" % (g.get("kind", g.get("basis")), g.get("ts", g.get("qs")), g.get("cs", []), r.get("msg", r.get("stderr", ""))[:200]),
                                   {"export_case": c, "impl": {k: r.get(k) for k in ("r", "e", "msg")}}))
    stats["export_never_panics"] = xst
    # measurement entry points: a list with an out-of-range qubit or with more entries than the register has qubits is an error
    # (never a result, never a panic, however long the list); every list of distinct in-range qubits is accepted
    mcases = []
    for n in (1, 2, 3, 5):
        good = [[], [0], list(range(n)), list(reversed(range(n)))]
        bad = [[n], [0, n + 1], list(range(n + 1)), [2**40], [0] * (n + 1), [n - 1] * (n + 2), [0] * 65, [0, n - 1] * 40]
        for qs, ok in [(q, True) for q in good] + [(q, False) for q in bad]:
            for b in ("C", "X", "Y"):
                v = rand_vec(rng, n, "normalised")
                mcases.append(({"op": "measure", "mode": "measure", "n": n, "v": v, "basis": b, "qs": qs, "draw": float2bits(0.4), "thr": 10}, ok))
    mres = run_harness([c for c, _ in mcases], nproc=8)
    mst = {"cases": len(mcases), "accepted": 0, "refused": 0}
    for (c, ok), r in zip(mcases, mres):
        if r.get("r") == "ok": mst["accepted"] += 1
        elif r.get("r") == "err": mst["refused"] += 1
        if (r.get("r") == "ok") != ok or r.get("r") not in ("ok", "err"):
            what = ("measure panicked" if r.get("r") in ("panic", "crash") else "measure accepted an invalid qubit list" if not ok else "measure refused a valid qubit list: %s" % r.get("e"))
            ctx.violations.append(("%s (basis %s, %d qubits, list of %d entries %s)" % (what, c["basis"], c["n"], len(c["qs"]), c["qs"][:6]),
                                   {"measure_case": c, "expect_ok": ok, "impl": {k: r.get(k) for k in ("r", "e", "msg")}}))
    stats["measure_arguments"] = mst
    cres = run_harness(ccases, nproc=8)
    cst = {"built": 0, "build_err": 0, "exec_ok": 0, "exec_err": 0}
    for c, r in zip(ccases, cres):
        b = c06.brief(c)
        in_range = all(q < c["cn"] for g in c["gates"] for q in sum(c06.targets_of(g), []))
        if r.get("r") in ("panic", "crash"):
            ctx.violations.append(("panic while building / executing a circuit: %s" % r.get("msg", r.get("stderr", "")), {"circuit_case": c, "brief": b}))
        elif r.get("r") == "build_err":
            cst["build_err"] += 1
            if in_range: ctx.violations.append(("Circuit::with_gates rejected in-range gates: %s" % r.get("e"), {"circuit_case": c, "brief": b}))
        elif r.get("r") == "ok":
            cst["built"] += 1
            if not in_range: ctx.violations.append(("Circuit::with_gates accepted a gate addressing a qubit outside the circuit", {"circuit_case": c, "brief": b}))
            e = r["exec"]
            cst["exec_ok" if e["r"] == "ok" else "exec_err"] += 1
            if c["cn"] != c["n"] and (e["r"] == "ok" or r.get("trace", {}).get("r") == "ok"):
                ctx.violations.append(("a circuit was %s on a state of a different width" % ("executed" if e["r"] == "ok" else "traced"), {"circuit_case": c, "brief": b}))
            if c.get("arity_bad") and (e["r"] == "ok" or r.get("trace", {}).get("r") == "ok"):
                ctx.violations.append(("a gate with the wrong number of targets / controls was executed: a state was returned instead of an error", {"circuit_case": c, "brief": b}))
    stats["circuits"] = cst
    ctx.broken = ctx.broken[:5]
    by = {}
    for c, r in zip(cases, results):
        k = "%s/%s" % (c["kind"], classify(r)); by[k] = by.get(k, 0) + 1
    distinct = len({json.dumps([c["kind"], c["n"], c["ts"], c["cs"], c["n"] >= c["thr"]]) for c in cases})
    return finish(ctx, trusted=TRUSTED, evaluations=len(cases), nontrivial=distinct,
                  rule="per operator kind x register size: arity sweep (0..3 targets), every boundary value {0,1,n-2,n-1,n,n+1,63,64,2^32,usize::MAX} in each "
                       "argument role, control=target, control=t+1, repeated targets/controls, all ordered target pairs, plus a valid random stream; both "
                       "validation branches (threshold hook) and the shipped threshold at 10 qubits; verdict = outcome class Ok/Err/Panic vs args_valid",
                  samples=[dict(describe(c), impl=classify(r)) for c, r in list(zip(cases, results))[:3] + list(zip(cases, results))[-2:]],
                  extra={"verdict_counts": stats, "cases_by_kind_and_class": by, "max_qubits": max(c["n"] for c in cases)})

def replay(ctx, path):
    body = json.load(open(path))
    if body["replay"].get("measure_case"):
        r = run_harness([body["replay"]["measure_case"]])[0]
        print(json.dumps({"impl": {k: r.get(k) for k in ("r", "e", "msg")}}))
        return 0 if (r.get("r") in ("ok", "err") and (r.get("r") == "ok") == body["replay"].get("expect_ok")) else 1
    if body["replay"].get("export_case"):
        r = run_harness([body["replay"]["export_case"]])[0]
        print(json.dumps({"impl": {k: r.get(k) for k in ("r", "e", "msg")}}))
        return 1 if r.get("r") in ("panic", "crash") else 0
    if body["replay"].get("pauli_case"):
        r = run_harness([body["replay"]["pauli_case"]])[0]
        print(json.dumps({"impl": {k: r.get(k) for k in ("r", "e", "msg")}}))
        return 0 if r.get("r") == "err" else 1
    if body["replay"].get("circuit_case"):
        r = run_harness([body["replay"]["circuit_case"]])[0]
        print(json.dumps({k: (v if k != "trace" else "...") for k, v in r.items() if k not in ("oracles", "readback")})[:600]); return 1
    case = body["replay"].get("case")
    if not case:
        print("replay file carries no concrete case:", body["what"]); return 1
    results, codes = run_gate_cases(ctx, [case])
    print(json.dumps({"describe": describe(case), "impl": classify(results[0]), "impl_err": results[0].get("e"), "verdict_bits": codes[0]}, indent=1))
    return 0 if (codes[0] is not None and codes[0] & 16 and results[0]["r"] != "panic") else 1
