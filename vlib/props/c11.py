"""C11: Ising and Heisenberg builders return the documented Hamiltonian on every lattice."""
from ..common import *
from ..paulicases import cq_sum

TRUSTED = [
    "Coq 8.16.1 kernel; vm_compute to RUN the model and the documented (unpruned) Hamiltonian Spec and to merge both term lists into coefficient maps",
    "rayon: chunks(k).flat_map(..).collect() preserves order (library assumption; the model's chunking is proved irrelevant for every k)",
    "hand-written model Model/Lattice.v tied to ising.rs / heisenberg.rs by this correspondence run (operator-level verdict; raw list equality reported)",
    "theorem hypothesis zero_test_ok: `x == 0.0` decides x = 0 (true for exact scalars; for binary64 up to the sign of zero)",
]
IMPORTS = ("From QI Require Import Base.Scalar Model.Outcome Model.Pauli Model.Lattice Spec.Hamiltonians Run.FloatInst Run.EvalGates Run.EvalPauli Run.EvalLattice.")

SPECIAL = [0.0, -0.0, 1.0, -1.0, 0.5, -2.5, 1e-9, -3e7, 2.0, 1e-17, -3e-20, 1.6e-21, 5e-324]   # incl. non-zero values far below f64::EPSILON
def rparam(rng):
    return rng.choice(SPECIAL) if rng.random() < 0.45 else rng.uniform(-3, 3)

def gen_cases(ctx):
    rng = ctx.rng
    cases = []
    def thr(): return rng.choice([1, 2, 3, 4, 5, 7, 8, 16]) if not ctx.thorough() else rng.choice([1, 2, 3, 4, 5, 6, 7, 8, 11, 16, 32])
    def mk(kind, n, m, p, h=None, j=None, threads=None):
        cases.append({"op": "lattice", "kind": kind, "n": n, "m": m, "threads": threads or thr(),
                      "p": [float2bits(x) for x in p], "h": [float2bits(x) for x in (h or [])], "j": [float2bits(x) for x in (j or [])]})
    n1 = list(range(0, 26)) + [33, 40] if not ctx.thorough() else list(range(0, 41))
    for n in n1:
        for _ in range(2):
            mk("ising_1d_uniform", n, 0, [rparam(rng), rparam(rng), rparam(rng)])
            mk("heisenberg_1d", n, 0, [rparam(rng) for _ in range(5)])
        # field only / each single coupling only (sign conventions are visible term by term)
        mk("heisenberg_1d", n, 0, [0.0, 0.0, 0.0, 1.5, 2.0]); mk("heisenberg_1d", n, 0, [0.0, 1.0, 0.0, 0.0, 1.0])
    for n in [0, 1, 2, 3, 4, 5, 6, 7, 8, 9, 10, 11, 12, 13, 16, 17, 24, 33]:
        for _ in range(2):
            mk("ising_1d", n, 0, [rparam(rng)], h=[rparam(rng) for _ in range(n)], j=[rparam(rng) for _ in range(n)])
        mk("ising_1d", n, 0, [rparam(rng)], h=[0.0] * n, j=[0.0] * n)
    for n in range(0, 8):
        for m in range(0, 8):
            mk("ising_2d_uniform", n, m, [rparam(rng), rparam(rng), rparam(rng)])
            mk("heisenberg_2d", n, m, [rparam(rng) for _ in range(5)])
            mk("heisenberg_2d", n, m, [0.0, 0.0, 0.0, 1.5, 2.0])
            mk("ising_2d", n, m, [rparam(rng)], h=[rparam(rng) for _ in range(n * m)], j=[rparam(rng) for _ in range(2 * n * m)])
    if ctx.thorough():
        for _ in range(100):
            n, m = rng.randrange(2, 8), rng.randrange(2, 8)
            mk("heisenberg_2d", n, m, [rparam(rng) for _ in range(5)]); mk("ising_2d", n, m, [rparam(rng)], h=[rparam(rng) for _ in range(n * m)], j=[rparam(rng) for _ in range(2 * n * m)])
    # coefficients that cancel exactly when added up (per site and overall) but are not zero: every term must still be there
    for n, m in ((2, 2), (3, 3), (2, 4)):
        mk("ising_2d", n, m, [1.0], h=[1.0] * (n * m), j=[-0.5] * (2 * n * m))
        mk("ising_2d", n, m, [0.7], h=[0.0] * (n * m), j=[1.0, -1.0] * (n * m))
        mk("ising_2d", n, m, [1.0], h=[rng.choice([2.0, -2.0, 0.5]) for _ in range(n * m)], j=None)
        cases[-1]["j"] = [float2bits(-bits2float(hh) / 2) for hh in cases[-1]["h"] for _ in (0, 1)]
        mk("ising_2d_uniform", n, m, [-2.0, 1.0, 1.0]); mk("heisenberg_2d", n, m, [1.0, -2.0, 1.0, 0.0, 1.0]); mk("heisenberg_2d", n, m, [1.0, 1.0, 1.0, -3.0, 1.0])
    for n in (2, 3, 5):
        mk("ising_1d", n, 0, [1.0], h=[1.0] * n, j=[-1.0] * n); mk("ising_1d_uniform", n, 0, [-1.0, 1.0, 1.0])
        mk("heisenberg_1d", n, 0, [1.0, -2.0, 1.0, 0.0, 1.0]); mk("heisenberg_1d", n, 0, [1.0, 1.0, 1.0, -3.0, 1.0])
    # an invalid size together with parameters that are all zero (the "nothing to build" exits must not come before the size check)
    for kind, np_ in (("ising_1d_uniform", 3), ("heisenberg_1d", 5)):
        for n in (0, 1):
            for z in (0.0, -0.0):
                mk(kind, n, 0, [z] * (np_ - 1) + [rparam(rng)]); mk(kind, n, 0, [z] * np_)
    for kind, np_ in (("ising_2d_uniform", 3), ("heisenberg_2d", 5)):
        for n, m in ((0, 0), (1, 1), (0, 3), (3, 1), (1, 4), (2, 0)):
            mk(kind, n, m, [0.0] * (np_ - 1) + [rparam(rng)]); mk(kind, n, m, [-0.0] * np_)
    for n in (0, 1):
        mk("ising_1d", n, 0, [0.0], h=[0.0] * n, j=[-0.0] * n)
    mk("ising_2d", 1, 1, [0.0], h=[0.0], j=[0.0, 0.0]); mk("ising_2d", 1, 3, [1.0], h=[0.0] * 3, j=[0.0] * 6); mk("ising_2d", 0, 2, [1.0], h=[], j=[])
    # call history: the same builder asked first for a lattice that differs in exactly one parameter (or in none), on the same thread
    for kind, np_, n, m in (("ising_1d_uniform", 3, 5, 0), ("heisenberg_1d", 5, 4, 0), ("ising_2d_uniform", 3, 2, 3), ("heisenberg_2d", 5, 3, 2), ("heisenberg_1d", 5, 9, 0)):
        base = [rng.choice([0.7, -1.3, 2.0, 0.25]) for _ in range(np_)]
        for pos in range(np_):
            for other in (0.0, -base[pos], base[pos] + 1.0):
                q = list(base); q[pos] = other
                mk(kind, n, m, base, threads=1); cases[-1]["prev"] = [[float2bits(x) for x in q]]
                mk(kind, n, m, q, threads=rng.choice([1, 3])); cases[-1]["prev"] = [[float2bits(x) for x in base], [float2bits(x) for x in base]]
        mk(kind, n, m, base, threads=1); cases[-1]["prev"] = [[float2bits(x) for x in base]]
    for n in (3, 5):
        mk("ising_1d", n, 0, [0.8], h=[1.0, -2.0, 0.5, 1.0, 3.0][:n], j=[0.5, 1.5, -1.0, 2.0, 1.0][:n], threads=1); cases[-1]["prev"] = [[float2bits(-0.8)], [float2bits(0.0)]]
    mk("ising_2d", 2, 2, [0.8], h=[1.0, -2.0, 0.5, 1.0], j=[0.5, 1.5, -1.0, 2.0, 1.0, 1.0, 2.0, -0.5], threads=1); cases[-1]["prev"] = [[float2bits(-0.8)], [float2bits(0.0)]]
    # thread-count sweep on fixed shapes (chunk boundaries incl. n < threads and n not divisible)
    for t in range(1, 17):
        mk("heisenberg_1d", 7, 0, [1.0, -0.5, 2.0, 0.3, 1.1], threads=t); mk("ising_1d_uniform", 33, 0, [0.7, 1.3, 0.9], threads=t)
        mk("ising_2d_uniform", 3, 5, [0.7, 1.3, 0.9], threads=t); mk("ising_1d", 5, 0, [1.0], h=[1, 2, 3, 4, 5], j=[5, 4, 3, 2, 1], threads=t)
    return cases

def fl(xs): return "[" + ";".join(cqf(x) for x in xs) + "]"

def coq_term(case, res):
    k, n, m, t = case["kind"], cqN(case["n"]), cqN(case["m"]), cqN(case["threads"])
    p = [cqf(x) for x in case["p"]]
    half = "0x1p-1"
    if k == "ising_1d_uniform":
        model = "ising_1d_uniform fops %s %s %s %s %s" % (t, n, p[0], p[1], p[2])
        spec = "ising_1d_spec fops %s (fun _ => %s) (fun _ => %s) %s" % (n, p[0], p[1], p[2]); ok = case["n"] >= 2
    elif k == "ising_1d":
        h, j = "(fn_of %s)" % fl(case["h"]), "(fn_of %s)" % fl(case["j"])
        model = "ising_1d fops %s %s %s %s %s" % (t, n, h, j, p[0]); spec = "ising_1d_spec fops %s %s %s %s" % (n, h, j, p[0]); ok = case["n"] >= 2
    elif k == "ising_2d_uniform":
        model = "ising_2d_uniform fops %s %s %s %s %s %s" % (t, n, m, p[0], p[1], p[2])
        spec = "ising_2d_spec fops %s %s (fun _ _ => %s) (fun _ _ => %s) (fun _ _ => %s) %s" % (n, m, p[0], p[1], p[1], p[2]); ok = case["n"] >= 2 and case["m"] >= 2
    elif k == "ising_2d":
        h = "(fn2_of %s %s)" % (m, fl(case["h"]))
        jv = "(fn2_of %s %s)" % (m, fl(case["j"][0::2])); jh = "(fn2_of %s %s)" % (m, fl(case["j"][1::2]))
        model = "ising_2d fops %s %s %s %s %s %s %s" % (t, n, m, h, jv, jh, p[0]); spec = "ising_2d_spec fops %s %s %s %s %s %s" % (n, m, h, jv, jh, p[0]); ok = case["n"] >= 2 and case["m"] >= 2
    elif k == "heisenberg_1d":
        model = "heisenberg_1d fops %s %s %s %s %s %s %s %s" % (half, t, n, p[0], p[1], p[2], p[3], p[4])
        spec = "heisenberg_1d_spec fops %s %s %s %s %s %s %s" % (half, n, p[0], p[1], p[2], p[3], p[4]); ok = case["n"] >= 2
    elif k == "heisenberg_2d":
        model = "heisenberg_2d fops %s %s %s %s %s %s %s %s %s" % (half, t, n, m, p[0], p[1], p[2], p[3], p[4])
        spec = "heisenberg_2d_spec fops %s %s %s %s %s %s %s %s" % (half, n, m, p[0], p[1], p[2], p[3], p[4]); ok = case["n"] >= 2 and case["m"] >= 2
    else:
        raise ValueError(k)
    if res["r"] == "ok": r = "(LTerms %s)" % cq_sum(res["terms"])
    elif res["r"] == "err": r = "LErr"
    else: r = "LPanic"
    specterm = "(%s)" % spec if ok else "[]"
    return "check_lattice (%s) %s %s %s" % (model, specterm, cqbool(ok), r)

def brief(case):
    return {"kind": case["kind"], "n": case["n"], "m": case["m"], "threads": case["threads"], "p": [bits2float(x) for x in case["p"]],
            "called_before_with": [[bits2float(x) for x in q] for q in case.get("prev", [])],
            "h": [bits2float(x) for x in case["h"][:8]], "j": [bits2float(x) for x in case["j"][:8]]}

def run_cases(ctx, cases):
    results = run_harness(cases, nproc=8)
    terms, idx = [], []
    for i, (c, r) in enumerate(zip(cases, results)):
        if r["r"] in ("ok", "err", "panic"):
            terms.append(coq_term(c, r)); idx.append(i)
    outs = coq_eval(ctx, IMPORTS, terms)
    codes = [None] * len(cases)
    for i, o in zip(idx, outs):
        codes[i] = parseN(o)
    return results, codes

def fingerprint(case):
    return "%s n=%d m=%d" % (case["kind"], case["n"], case["m"])

def judge(ctx, cases, results, codes):
    stats = {"class_agrees": 0, "operator_eq_model": 0, "raw_list_eq_model": 0, "operator_eq_documented": 0, "err": 0, "unevaluated": 0}
    known = load_known()
    for c, r, code in zip(cases, results, codes):
        b = brief(c)
        if r["r"] in ("panic", "crash"):
            ctx.violations.append(("panic: %s" % r.get("msg", ""), {"case": c, "brief": b})); continue
        if r["r"] == "err": stats["err"] += 1
        if code is None:
            stats["unevaluated"] += 1; continue
        for bit, nm in ((1, "class_agrees"), (2, "operator_eq_model"), (4, "raw_list_eq_model"), (8, "operator_eq_documented")):
            if code & bit: stats[nm] += 1
        if not (code & 16):
            ctx.violations.append(("a lattice dimension below 2 was accepted" if r["r"] == "ok" else "a valid lattice was rejected: %s" % r.get("e"), {"case": c, "brief": b}))
        elif not (code & 8):
            kf = [k for k in known if k.get("property") == "C11" and k.get("kind") == c["kind"] and bits2float(c["p"][3] if len(c["p"]) > 3 else "0" * 16) != 0.0]
            if kf:
                msg = kf[0]["what"]
                if msg not in ctx.known: ctx.known.append(msg)
            else:
                ctx.violations.append(("returned operator differs from the documented Hamiltonian", {"case": c, "brief": b, "verdict_bits": code, "impl_terms": r.get("terms", [])[:12]}))
        elif not (code & 1) or not (code & 2):
            ctx.broken.append("correspondence model-vs-impl differs (documented Hamiltonian still met) on %s" % json.dumps(b))
    return stats

def run(ctx):
    proof_ok = proof_check(ctx)
    if ctx.thorough() and proof_ok:
        coqchk(ctx)
    cases = gen_cases(ctx)
    results, codes = run_cases(ctx, cases)
    stats = judge(ctx, cases, results, codes)
    ctx.broken = ctx.broken[:5]
    kinds = {}
    for c in cases: kinds[c["kind"]] = kinds.get(c["kind"], 0) + 1
    return finish(ctx, trusted=TRUSTED, evaluations=len(cases), nontrivial=len({json.dumps([c["kind"], c["n"], c["m"], c["p"], c["h"], c["j"]]) for c in cases}),
                  rule="1-D n = 0..25,33,40 (thorough 0..40), 2-D all (n,m) in 0..7 squared incl. non-square and size-2 wrap-around, site-specific const-generic variants through a table of "
                       "instantiations; parameters from {0,-0.0,+-1,0.5,-2.5,1e-9,-3e7,2} and uniform(-3,3); field-only / single-coupling cases; pools of 1..16(32) threads incl. a "
                       "full thread sweep on fixed shapes; verdict = merged coefficient map (operator) vs the documented unpruned Hamiltonian",
                  samples=[brief(c) for c in cases[:2]], extra={"verdict_counts": stats, "cases_by_kind": kinds})

def replay(ctx, path):
    body = json.load(open(path))
    case = body["replay"].get("case")
    if not case:
        print("replay file carries no concrete case:", body["what"]); return 1
    results, codes = run_cases(ctx, [case])
    n0 = len(ctx.violations)
    judge(ctx, [case], results, codes)
    print(json.dumps({"brief": brief(case), "impl": results[0]["r"], "verdict_bits": codes[0], "violations": [w for w, _ in ctx.violations[n0:]]}, indent=1))
    return 1 if len(ctx.violations) > n0 else 0
