"""C08: Pauli strings and their sums act as the operators they denote."""
from ..common import *
from ..gatecases import rand_vec
from ..paulicases import *

TRUSTED = [
    "Coq 8.16.1 kernel; vm_compute only to RUN the model and the closed-form Spec on the cases",
    "HashMap is modelled as an association list in an arbitrary order (universally quantified in C08_order_independent); the model is run with the order the real map iterated, the Spec is order-free",
    "hand-written model Model/Pauli.v + Model/StateOps.v tied to pauli_string.rs / state.rs by this correspondence run",
    "harness crate /verif/harness; float rounding not modelled (1e-12)",
]

ALG = ["ps_mul_c", "ps_mul_f", "f_mul_ps", "hconj", "ps_add", "sum_mul_c", "sum_mul_f", "sum_add", "sum_add_ps", "with_term"]

def gen_cases(ctx):
    rng = ctx.rng
    cases = []
    def mk(mode, n, terms, style="generic", **kw):
        c = {"op": "pauli", "mode": mode, "n": n, "v": rand_vec(rng, n, style), "terms": terms, "thr": rng.choice([10, 1])}
        c.update(kw); cases.append(c)
    # every Pauli string on 1..3 (4) qubits, generic complex coefficient and a state with generic phases
    for n in ([1, 2, 3] if not ctx.thorough() else [1, 2, 3, 4]):
        for ops in all_strings(n):
            o = list(ops); rng.shuffle(o)
            mk("apply", n, [{"ops": o, "coef": rand_coef(rng, "complex")}])
    for n, cnt in ([(4, 60), (5, 40), (6, 30), (7, 10)] if not ctx.thorough() else [(5, 200), (6, 150), (7, 80), (8, 40), (10, 10)]):
        for _ in range(cnt):
            mk("apply", n, [rand_string(rng, n)], style=rng.choice(["generic", "normalised"]))
    # registers of 10 (11) qubits - beyond every size threshold of the crate - with strings made mostly of Y factors (odd and even
    # counts): a fused one-pass application must take every sign from the right index
    for n, ny in ((10, 1), (10, 3), (10, 2)) + (((11, 5), (11, 3)) if ctx.thorough() else ()):
        qs = rng.sample(range(n), ny + 2)
        t = {"ops": [[q, "Y"] for q in qs[:ny]] + [[qs[ny], "X"], [qs[ny + 1], "Z"]], "coef": rand_coef(rng)}
        rng.shuffle(t["ops"])
        mk("apply", n, [t], style="normalised")
        mk("normalised", n, [dict(t)], style="normalised")
    # factors outside the register
    for n in (1, 2, 3, 5):
        for bad in (n, n + 1, 64, 2**40):
            t = rand_string(rng, n, allow_empty=False)
            t["ops"][rng.randrange(len(t["ops"]))][0] = bad
            mk("apply", n, [t]); mk("sum_apply", n, [rand_string(rng, n), t]); mk("expect", n, [t, rand_string(rng, n)])
    # normalised application
    for _ in range(20):
        n = rng.randrange(1, 6); mk("normalised", n, [rand_string(rng, n)], style="normalised")
    # sums of 0..12 (40) terms
    maxterms = 12 if not ctx.thorough() else 40
    for _ in range(80 if not ctx.thorough() else 300):
        n = rng.randrange(1, 7 if not ctx.thorough() else 9)
        k = rng.choice([0, 1, 2, 3, 5, 8, maxterms, rng.randrange(0, maxterms + 1)])
        ck = rng.choice([None, None, "real"])
        terms = [rand_string(rng, n, ck) for _ in range(k)]
        mk(rng.choice(["sum_apply", "expect", "expect"]), n, terms, style=rng.choice(["generic", "normalised"]))
    # terms whose coefficient is exactly 0 / -0 (the start of a parameter sweep): all of them, some of them; and sums mixing exactly real
    # with complex coefficients - the sum still acts (as the zero operator / term by term) and its expectation value keeps every part
    zero = lambda: [float2bits(rng.choice([0.0, -0.0])), float2bits(rng.choice([0.0, -0.0]))]
    for n in (1, 2, 3, 4):
        for k in (1, 2, 4):
            allz = [dict(rand_string(rng, n), coef=zero()) for _ in range(k)]
            somez = [dict(rand_string(rng, n), coef=zero()) for _ in range(k)] + [rand_string(rng, n, "complex")]
            rng.shuffle(somez)
            mixed = [rand_string(rng, n, "real") for _ in range(k)] + [rand_string(rng, n, "complex") for _ in range(k)]
            rng.shuffle(mixed)
            for terms in (allz, somez, mixed):
                mk("sum_apply", n, terms, style="generic"); mk("expect", n, terms, style="normalised")
    # strings that were already used (applied, lowered to gates, cloned) before their last factors were added: a string is its current factors
    for n in (2, 3, 4):
        for _ in range(4):
            t = rand_string(rng, n, allow_empty=False)
            while len(t["ops"]) < 2: t = rand_string(rng, n, allow_empty=False)
            t["used_after"] = [rng.randrange(1, len(t["ops"])), n]
            mk("apply", n, [t]); mk("sum_apply", n, [rand_string(rng, n), t]); mk("expect", n, [t, rand_string(rng, n)], style="normalised")
    # expectation values on registers above the 64-amplitude threshold of the parallel inner product, complex coefficients
    for n in (7, 7, 8):
        mk("expect", n, [rand_string(rng, n, "complex") for _ in range(rng.randrange(2, 5))], style="normalised")
        mk("expect", n, [rand_string(rng, n, "complex")], style="generic")
    # long sums: lengths around the block sizes a parallel accumulation would use (63..130 terms, not multiples of 16)
    for k in ([63, 64, 65, 70, 90, 127] if not ctx.thorough() else [63, 64, 65, 70, 90, 127, 129, 200, 257]):
        n = rng.randrange(3, 6)
        mk("sum_apply", n, [rand_string(rng, n, rng.choice([None, "real"])) for _ in range(k)], style="generic")
        mk("expect", n, [rand_string(rng, n, "real") for _ in range(k)], style="normalised")
    # arithmetic operators
    for mode in ALG:
        for _ in range(10 if not ctx.thorough() else 40):
            n = rng.randrange(1, 6)
            k = {"ps_mul_c": 1, "ps_mul_f": 1, "f_mul_ps": 1, "hconj": 1, "ps_add": 2}.get(mode, rng.randrange(1, 6))
            if mode == "sum_add_ps" and rng.random() < 0.6 and k >= 1:
                # a new string on the same qubits as an existing term, other Paulis
                terms = [rand_string(rng, n, allow_empty=False) for _ in range(k)]
                base = rng.choice(terms)
                terms.append({"ops": [[q, rng.choice("XYZ")] for q, _ in base["ops"]], "coef": rand_coef(rng)})
            else:
                terms = [rand_string(rng, n) for _ in range(k + (1 if mode in ("sum_add_ps", "with_term") else 0))]
            mk(mode, n, terms, c=rand_coef(rng, "complex"), f=ctx.randf(-3, 3), split=rng.randrange(0, len(terms) + 1))
    # the constant string (no factors) with a complex coefficient through every string-level operator: (c I)^dagger = conj(c) I
    for mode in ("hconj", "ps_mul_c", "ps_mul_f", "f_mul_ps", "ps_add", "sum_add_ps", "with_term"):
        for n in (1, 3):
            const = {"ops": [], "coef": rand_coef(rng, "complex")}
            terms = [const] if mode in ("hconj", "ps_mul_c", "ps_mul_f", "f_mul_ps") else [const, {"ops": [], "coef": rand_coef(rng, "complex")}] if mode == "ps_add" else [rand_string(rng, n, "complex"), const]
            mk(mode, n, terms, c=rand_coef(rng, "complex"), f=ctx.randf(-3, 3), split=1)
    # coefficients with exactly ONE part at a special value (1, -1, 0, -0) and the other generic - a fast path for "unit" or "real"
    # coefficients must look at both parts - on non-empty strings, through apply, sums and expectation values
    for a in (1.0, -1.0, 0.0, -0.0):
        for part in (0, 1):
            n = rng.randrange(1, 5)
            co = [float2bits(rng.uniform(-2, 2)), float2bits(rng.uniform(-2, 2))]; co[part] = float2bits(a)
            t = dict(rand_string(rng, n, allow_empty=False), coef=co)
            mk("apply", n, [t]); mk("normalised", n, [dict(t)], style="normalised")
            mk("sum_apply", n, [rand_string(rng, n, "complex"), dict(t)]); mk("expect", n, [dict(t), rand_string(rng, n, "complex")], style="normalised")
    # a sum is a LIST of terms: the identical term (same factors, same coefficient) may occur twice or three times, whether it comes in
    # through the constructor, `+`, `add_term` / `with_term`; it counts as often as it occurs
    for mode in ("sum_apply", "expect", "with_term", "sum_add_ps", "sum_add"):
        for n in (1, 2, 4):
            base = [rand_string(rng, n, "complex", allow_empty=False) for _ in range(rng.randrange(1, 4))]
            dup = rng.choice(base)
            for terms in (base + [dict(dup)], [dict(dup)] + base + [dict(dup)], [dict(dup), dict(dup)]):
                mk(mode, n, [dict(t) for t in terms], c=rand_coef(rng, "complex"), f=ctx.randf(-3, 3), split=len(terms) - 1)
    return cases

def expected_alg(case):
    """Gallina term for the operator the algebra dictates (built with the MODEL's transforms)"""
    m, ts = case["mode"], case["terms"]
    c, f = cqc(*case["c"]), cqf(case["f"])
    if m == "ps_mul_c": return "[ps_scale fops %s %s]" % (cq_ps(ts[0]), c)
    if m in ("ps_mul_f", "f_mul_ps"): return "[ps_scale_real fops %s %s]" % (cq_ps(ts[0]), f)
    if m == "hconj": return "[ps_hconj fops %s]" % cq_ps(ts[0])
    if m == "ps_add": return "(ps_add %s %s)" % (cq_ps(ts[0]), cq_ps(ts[1]))
    if m == "sum_mul_c": return "(sumop_scale fops %s %s)" % (cq_sum(ts), c)
    if m == "sum_mul_f": return "(sumop_scale fops %s (cre fops %s))" % (cq_sum(ts), f)
    if m == "sum_add": return "(sumop_add %s %s)" % (cq_sum(ts[:case["split"]]), cq_sum(ts[case["split"]:]))
    if m in ("sum_add_ps", "with_term"): return "(sumop_add_ps %s %s)" % (cq_sum(ts[:-1]), cq_ps(ts[-1]))
    raise ValueError(m)

def coq_term(case, res):
    par = cqbool(case["n"] >= case["thr"])
    n, v, r = cqN(case["n"]), cqvec(case["v"]), cq_pimpl(res)
    m = case["mode"]
    rb = res.get("readback", [])
    if m == "apply":
        return "check_ps_apply %s %s %s %s %s" % (par, cq_ps(with_order(case["terms"], rb)[0]), n, v, r)
    if m == "normalised":
        return "check_ps_normalised %s %s %s %s %s" % (par, cq_ps(with_order(case["terms"], rb)[0]), n, v, r)
    if m == "sum_apply":
        return "check_sum_apply %s %s %s %s %s" % (par, cq_sum(with_order(case["terms"], rb)), n, v, r)
    if m == "expect":
        return "check_expect %s %s %s %s %s" % (par, cq_sum(with_order(case["terms"], rb)), n, v, r)
    if m in ALG:
        return "N.add (check_sum_apply %s %s %s %s %s) (N.mul 32 (b2n (sum_eqb %s %s)))" % (par, cq_sum(rb), n, v, r, expected_alg(case), cq_sum(rb))
    raise ValueError(m)

def brief(case):
    return {"mode": case["mode"], "n": case["n"], "path": "par" if case["n"] >= case["thr"] else "seq",
            "terms": [[t["ops"], [bits2float(x) for x in t["coef"]]] for t in case["terms"][:6]], "nterms": len(case["terms"])}

def run_cases(ctx, cases):
    results = run_harness(cases, nproc=8)
    terms, idx = [], []
    for i, (c, r) in enumerate(zip(cases, results)):
        if r["r"] in ("ok", "err", "panic"):
            terms.append(coq_term(c, r)); idx.append(i)
    outs = coq_eval(ctx, PAULI_IMPORTS, terms)
    codes = [None] * len(cases)
    for i, o in zip(idx, outs):
        codes[i] = parseN(o)
    return results, codes

def judge(ctx, cases, results, codes):
    stats = {"class_agrees": 0, "model_close": 0, "model_equal": 0, "spec_close": 0, "algebra_ok": 0, "perm_agree": 0, "err": 0}
    for c, r, code in zip(cases, results, codes):
        b = brief(c)
        if r["r"] in ("panic", "crash"):
            ctx.violations.append(("panic: %s" % r.get("msg", ""), {"case": c, "brief": b})); continue
        if r["r"] == "err": stats["err"] += 1
        if c["mode"] == "normalised":
            # P_ops is a signed permutation of a normalised state: the result must be Ok and of norm 1 (checked by the harness' readback of v)
            if r["r"] == "ok":
                nrm = sum(bits2float(x) ** 2 for x in r["v"])
                if abs(nrm - 1) > 1e-12: ctx.violations.append(("apply_normalised returned a vector of squared norm %r" % nrm, {"case": c, "brief": b}))
            elif all(q < c["n"] for t in c["terms"] for q, _ in t["ops"]):
                ctx.violations.append(("apply_normalised failed on a valid string: %s" % r.get("e"), {"case": c, "brief": b}))
        if code is None: continue
        for bit, nm in ((1, "class_agrees"), (2, "model_close"), (4, "model_equal"), (8, "spec_close")):
            if code & bit: stats[nm] += 1
        if c["mode"] == "apply" and r.get("perm_agree"): stats["perm_agree"] += 1
        if not (code & 16):
            ctx.violations.append(("a string with a factor outside the register was accepted" if r["r"] == "ok" else "a valid string was rejected: %s" % r.get("e"), {"case": c, "brief": b}))
        elif not (code & 8):
            ctx.violations.append(("result differs from the Kronecker-product Spec (closed form) beyond 1e-12 [%s]" % c["mode"], {"case": c, "brief": b, "verdict_bits": code}))
        elif c["mode"] == "apply" and r["r"] == "ok" and not r.get("perm_agree"):
            ctx.violations.append(("the same Pauli string built in another insertion order gave a different result", {"case": c, "brief": b}))
        elif c["mode"] in ALG and not (code & 32):
            ctx.violations.append(("arithmetic operator %s produced an operator other than the algebra dictates" % c["mode"], {"case": c, "brief": b, "readback": r.get("readback")}))
        elif not (code & 1) or not (code & 2):
            ctx.broken.append("correspondence model-vs-impl differs (Spec still met) on %s" % json.dumps(b))
        if c["mode"] in ALG and code & 32: stats["algebra_ok"] += 1
    return stats

def run(ctx):
    proof_ok = proof_check(ctx)
    if ctx.thorough() and proof_ok:
        coqchk(ctx)
    cases = gen_cases(ctx)
    results, codes = run_cases(ctx, cases)
    stats = judge(ctx, cases, results, codes)
    ctx.broken = ctx.broken[:5]
    modes = {}
    for c in cases: modes[c["mode"]] = modes.get(c["mode"], 0) + 1
    return finish(ctx, trusted=TRUSTED, evaluations=len(cases), nontrivial=len({json.dumps([c["mode"], c["n"], c["terms"]]) for c in cases}),
                  rule="every Pauli string on 1..3(4) qubits with shuffled insertion order, random strings to 7(10) qubits, out-of-range factors, sums of 0..%d terms "
                       "(apply and expectation, complex and real coefficients), every arithmetic overload read back and compared with the model's transform; "
                       "each string also rebuilt in 4 other insertion orders in fresh maps" % (12 if not ctx.thorough() else 40),
                  samples=[brief(c) for c in cases[:2]], extra={"verdict_counts": stats, "cases_by_mode": modes})

def replay(ctx, path):
    body = json.load(open(path))
    case = body["replay"].get("case")
    if not case:
        print("replay file carries no concrete case:", body["what"]); return 1
    results, codes = run_cases(ctx, [case])
    n0 = len(ctx.violations)
    judge(ctx, [case], results, codes)
    print(json.dumps({"brief": brief(case), "impl": results[0]["r"], "verdict_bits": codes[0], "violations": [w for w, _ in ctx.violations[n0:]]}, indent=1))
    return 1 if len(ctx.violations) > n0 else 0
