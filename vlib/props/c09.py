"""C09: the exponential of a Pauli string is the true operator exponential."""
from ..common import *
from ..gatecases import rand_vec
from ..paulicases import *
import math

TRUSTED = [
    "Coq 8.16.1 kernel; vm_compute to RUN the model, the Spec and the Taylor-series reference (exact integer fixed-point, 200 fractional bits) on the cases",
    "libm: e^a, cosh a, sinh a are parameters of the model; their values are computed by the harness with num_complex and are validated per case against the in-Coq Taylor series (1e-12 relative); the result Spec uses the series values, not libm",
    "hand-written model Model/Pauli.v (ps_apply_exp_with, neg_i_dt guard) tied to pauli_string.rs by this correspondence run",
    "harness crate /verif/harness; float rounding not modelled (tolerance 4e-12 scaled by the result's magnitude)",
]
IMPORTS = PAULI_IMPORTS + "\nFrom QI Require Import Run.Taylor."

def cabs(cf): return math.hypot(bits2float(cf[0]), bits2float(cf[1]))

def coef_for_exp(rng, kind):
    u = lambda a: rng.uniform(-a, a)
    if kind == "generic": z = (u(2), u(2))
    elif kind == "real": z = (u(3), 0.0)
    elif kind == "imag": z = (0.0, u(6))
    elif kind == "tiny": z = (u(1) * 1e-12, u(1) * 1e-12)
    elif kind == "zero": z = (0.0, 0.0)
    elif kind == "big": z = (u(18), u(18))
    elif kind == "huge": z = (rng.choice([-1, 1]) * rng.uniform(20.5, 32), u(3))        # |Re| beyond 20: cosh - sinh is far below one ulp of either
    elif kind == "pi": z = (0.0, rng.choice([math.pi, -math.pi, math.pi / 2, 2 * math.pi]))
    else: raise ValueError(kind)
    return [float2bits(z[0]), float2bits(z[1])]

KINDS_Q = ["generic", "generic", "real", "imag", "tiny", "zero", "big", "pi", "huge"]

def gen_cases(ctx):
    rng = ctx.rng
    cases = []
    def mk(mode, n, term, **kw):
        c = {"op": "pauli_exp", "mode": mode, "n": n, "v": rand_vec(rng, n, rng.choice(["generic", "normalised"])), "term": term, "thr": rng.choice([10, 1])}
        c.update(kw); cases.append(c)
    sizes = [(1, 14), (2, 24), (3, 30), (4, 24), (5, 16), (6, 8)] if not ctx.thorough() else [(1, 40), (2, 80), (3, 100), (4, 80), (5, 60), (6, 40), (7, 20), (8, 10)]
    for n, cnt in sizes:
        for i in range(cnt):
            t = rand_string(rng, n, allow_empty=(i % 7 == 0))
            if i % 7 == 0: t["ops"] = [] if i % 14 == 0 else t["ops"]
            k = rng.choice(KINDS_Q)
            t["coef"] = coef_for_exp(rng, k)
            mode = rng.choice(["exp", "exp_factor", "exp_factor", "neg_i_dt"])
            if mode == "exp":
                mk("exp", n, t)
            elif mode == "exp_factor":
                fk = rng.choice(["generic", "real", "imag", "imag", "zero"])
                f = coef_for_exp(rng, fk)
                if cabs(t["coef"]) * cabs(f) > 25: f = coef_for_exp(rng, "tiny")
                mk("exp_factor", n, t, factor=f)
            else:
                # mostly real coefficients; a separate stream with (tiny) imaginary parts that must be refused
                if rng.random() < 0.7:
                    t["coef"] = [float2bits(rng.uniform(-3, 3)), float2bits(rng.choice([0.0, 0.0, -0.0]))]
                else:
                    t["coef"] = [float2bits(rng.uniform(-3, 3)), float2bits(rng.choice([1e-16, -1e-17, 5e-324, 1e-300, 0.25, -2.0, 2.2e-16]))]
                mk("neg_i_dt", n, t, dt=float2bits(rng.choice([rng.uniform(-2, 2), rng.uniform(-2, 2), 0.0, 1e-9, 7.5, 1e15])))
    # the empty string is the scalar e^alpha for EVERY alpha: every coefficient kind (purely imaginary and pi multiples included)
    # through every entry point
    for n in (1, 2, 3):
        for k in sorted(set(KINDS_Q)):
            if k == "huge": continue
            mk("exp", n, {"ops": [], "coef": coef_for_exp(rng, k)})
            for fk in ("real", "imag", "generic"):
                c = coef_for_exp(rng, k); f = coef_for_exp(rng, fk)
                if cabs(c) * cabs(f) > 25: f = coef_for_exp(rng, "tiny")
                mk("exp_factor", n, {"ops": [], "coef": c}, factor=f)
        for re in (-30.0, -22.0, -14.0, 25.0):          # e^c far from 1: the scalar must still be e^c to full relative precision
            mk("exp", n, {"ops": [], "coef": [float2bits(re), float2bits(rng.uniform(-1.5, 1.5))]})
        for c in (0.7, -1.3, 2.5):
            mk("exp_factor", n, {"ops": [], "coef": [float2bits(c), float2bits(0.0)]}, factor=[float2bits(0.0), float2bits(rng.uniform(-2, 2))])
            mk("neg_i_dt", n, {"ops": [], "coef": [float2bits(c), float2bits(0.0)]}, dt=float2bits(rng.choice([0.3, -1.1, 2.0])))
    # registers of 10 (11) qubits with strings made mostly of Y factors (odd and even counts), through each entry point
    for n, ny, mode in ((10, 1, "exp"), (10, 3, "neg_i_dt"), (10, 2, "exp_factor")) + (((11, 5, "exp"), (11, 3, "neg_i_dt")) if ctx.thorough() else ()):
        qs = rng.sample(range(n), ny + 2)
        t = {"ops": [[q, "Y"] for q in qs[:ny]] + [[qs[ny], "X"], [qs[ny + 1], "Z"]], "coef": coef_for_exp(rng, "generic")}
        rng.shuffle(t["ops"])
        if mode == "exp": mk("exp", n, t)
        elif mode == "exp_factor": mk("exp_factor", n, t, factor=coef_for_exp(rng, "imag"))
        else: mk("neg_i_dt", n, dict(t, coef=[float2bits(0.8), float2bits(0.0)]), dt=float2bits(0.7))
    # inputs that are ALMOST eigenvectors of the string (the other eigencomponent is 1e-8 of the norm, which an imaginary-time step
    # of a few units amplifies to order one), and inputs of tiny norm: the exponential is linear, nothing is "close enough"
    for n in (1, 2, 3):
        for e in (3e-8, 1e-7):
            dim = 1 << n
            v = [0.0] * (2 * dim); v[0] = math.sqrt(1 - e * e); v[2 * 1] = e      # |0..0> plus a little |0..01>: near an eigenvector of Z_0
            for re in (-12.0, 9.0):
                mk("exp", n, {"ops": [[0, "Z"]], "coef": [float2bits(re), float2bits(rng.uniform(-1, 1))]}, v=[float2bits(x) for x in v])
        for _ in range(3):
            t = rand_string(rng, n, allow_empty=False); t["coef"] = coef_for_exp(rng, rng.choice(["generic", "real"]))
            mk(rng.choice(["exp", "exp_factor"]), n, t, v=rand_vec(rng, n, "tiny"), factor=coef_for_exp(rng, "real"))
    # out-of-range factors
    for n in (1, 2, 3):
        t = rand_string(rng, n, allow_empty=False); t["ops"][0][0] = n + rng.randrange(0, 3); t["coef"] = coef_for_exp(rng, "generic")
        mk("exp", n, t); mk("exp_factor", n, dict(t), factor=coef_for_exp(rng, "generic")); mk("neg_i_dt", n, dict(t, coef=[float2bits(0.7), float2bits(0.0)]), dt=float2bits(0.3))
    # out-of-range factors whose exponent vanishes (alpha = 0): still an error
    for n in (1, 2, 3):
        t = rand_string(rng, n, allow_empty=False); t["ops"][0][0] = n + rng.randrange(0, 3)
        z = [float2bits(0.0), float2bits(0.0)]
        mk("exp", n, dict(t, coef=z)); mk("exp_factor", n, dict(t, coef=coef_for_exp(rng, "generic")), factor=z)
        mk("exp_factor", n, dict(t, coef=z), factor=coef_for_exp(rng, "generic")); mk("neg_i_dt", n, dict(t, coef=[float2bits(0.7), float2bits(0.0)]), dt=float2bits(0.0))
    # group law on the implementation's outputs
    for _ in range(40 if not ctx.thorough() else 150):
        n = rng.randrange(1, 6)
        t = rand_string(rng, n); a = coef_for_exp(rng, rng.choice(["generic", "real", "imag"])); b = coef_for_exp(rng, rng.choice(["generic", "real", "imag"]))
        t["coef"] = a
        s = [float2bits(bits2float(a[0]) + bits2float(b[0])), float2bits(bits2float(a[1]) + bits2float(b[1]))]
        mk("group", n, t, b=b, sum=s)
    # exponents with a large real part of either sign (|Re| = 100 .. 700: cosh and sinh are near 1e43 .. 1e303, still finite): judged
    # against cosh(a) psi + sinh(a) P psi formed by the driver with Python's cmath (outside Coq; labelled large_exponents)
    for re_ in (-100.0, -365.0, -369.5, -371.0, -400.0, -650.0, 120.0, 400.0, 700.0):
        for n in (1, 2, 3):
            t = rand_string(rng, n, allow_empty=(n == 3 and re_ in (-400.0, 400.0)))
            t["coef"] = [float2bits(re_), float2bits(rng.uniform(-1, 1))]
            mk("exp", n, t); mk("exp_factor", n, t, factor=[float2bits(1.0), float2bits(0.0)])
    # call history: the same string exponentiated first with OTHER coefficients on the same thread (real and imaginary part exchanged,
    # both negated, equal parts, the same value) - a remembered cosh / sinh must never be handed to a different exponent
    for n in (1, 2, 3):
        for (a, b) in ((0.3, 0.7), (0.25, 0.25), (-1.5, -1.5), (1.1, -0.4), (0.0, 0.9), (0.6, 0.0)):
            t = rand_string(rng, n, allow_empty=False)
            t["coef"] = [float2bits(a), float2bits(b)]
            others = [[float2bits(b), float2bits(a)], [float2bits(-a), float2bits(-b)], [float2bits(0.8), float2bits(0.8)], [float2bits(a), float2bits(b)], [float2bits(a), float2bits(-b)]]
            for prev in ([others[0]], [others[1]], [others[2]], others):
                mk("exp", n, t, prev=prev)
                mk("exp_factor", n, t, factor=[float2bits(1.0), float2bits(0.0)], prev=prev)
    # inside pools of 3 / 5 / 6 workers, on both paths
    for k in (3, 5, 6):
        for n in (4, 5, 6):
            t = rand_string(rng, n, allow_empty=False); t["coef"] = coef_for_exp(rng, "generic")
            mk("exp", n, t, in_pool=k); mk("exp_factor", n, t, factor=coef_for_exp(rng, "imag"), in_pool=k)
    return cases

def nterms_for(alpha):
    return int(4 * cabs(alpha) + 45)

def coq_term(case, res):
    par = cqbool(case["n"] >= case["thr"])
    n, v = cqN(case["n"]), cqvec(case["v"])
    if case["mode"] == "group":
        return "check_exp_group %s %s %s %s" % (v, cqvec(res["eab"]), cqvec(res["esum"]), cqvec(res["e0"]))
    t = {"ops": res["readback"][0]["ops"], "coef": case["term"]["coef"]}
    return "check_exp_case %s %s %s %s %s %s %s (Z.to_nat %d) %s %s %s" % (
        par, cqbool(case["mode"] == "neg_i_dt"), cq_ps(t), cqc(*res["alpha"]), cqc(*res["ea"]), cqc(*res["ch"]), cqc(*res["sh"]),
        nterms_for(res["alpha"]), n, v, cq_pimpl(res))

def brief(case):
    b = {"mode": case["mode"], "n": case["n"], "path": "par" if case["n"] >= case["thr"] else "seq", "ops": case["term"]["ops"],
         "coef": [bits2float(x) for x in case["term"]["coef"]]}
    for k in ("factor", "b", "sum"):
        if k in case: b[k] = [bits2float(x) for x in case[k]]
    if "dt" in case: b["dt"] = bits2float(case["dt"])
    if "prev" in case: b["exponentiated_before_with"] = [[bits2float(x) for x in z] for z in case["prev"]]
    return b

def run_cases(ctx, cases):
    results = run_harness(cases, nproc=8)
    terms, idx, skipped = [], [], 0
    for i, (c, r) in enumerate(zip(cases, results)):
        if r["r"] in ("ok", "err", "panic"):
            if c["mode"] != "group" and (cabs(r["alpha"]) > 60 or any(math.isinf(bits2float(x)) or math.isnan(bits2float(x)) for x in r["alpha"] + r["ch"] + r["sh"] + r["ea"])):
                skipped += 1; continue        # overflow region: reported, not judged
            if c["mode"] == "group" and r["r"] != "ok": continue
            terms.append(coq_term(c, r)); idx.append(i)
    outs = coq_eval(ctx, IMPORTS, terms)
    codes = [None] * len(cases)
    for i, o in zip(idx, outs):
        codes[i] = parseN(o)
    return results, codes, skipped

def judge_large(ctx, c, r, stats):
    import cmath
    a = complex(*[bits2float(x) for x in r["alpha"]])
    v = [complex(bits2float(c["v"][2 * i]), bits2float(c["v"][2 * i + 1])) for i in range(1 << c["n"])]
    ops = (r.get("readback") or [c["term"]])[0]["ops"]
    mask = 0
    for q, pch in ops:
        if pch != "Z": mask |= 1 << q
    def ph(k):
        z = 1
        for q, pch in ops:
            b = (k >> q) & 1
            z *= 1 if pch == "X" else ((-1 if b else 1) if pch == "Z" else (1j if b else -1j))
        return z
    try:
        ch, sh, ea = cmath.cosh(a), cmath.sinh(a), cmath.exp(a)
    except OverflowError:
        return
    w = [complex(bits2float(r["v"][2 * i]), bits2float(r["v"][2 * i + 1])) for i in range(len(v))]
    exp_ = [ea * v[k] for k in range(len(v))] if not ops else [ch * v[k] + sh * ph(k) * v[k ^ mask] for k in range(len(v))]
    scale = (abs(ch) + abs(sh)) * max(abs(z) for z in v)
    stats["large_exponents"] = stats.get("large_exponents", 0) + 1
    if any(z != z for z in w) or max(abs(x - y) for x, y in zip(w, exp_)) > 1e-11 * scale:
        ctx.violations.append(("exponent with real part %.1f: the result is not cosh(a) psi + sinh(a) P psi (relative deviation %s)" % (a.real, "NaN" if any(z != z for z in w) else "%.3g" % (max(abs(x - y) for x, y in zip(w, exp_)) / scale)),
                               {"case": c, "brief": brief(c)}))

def judge(ctx, cases, results, codes):
    stats = {"class_agrees": 0, "model_close": 0, "model_equal": 0, "series_spec_close": 0, "oracle_matches_series": 0, "group_ok": 0, "exp0_ok": 0, "err": 0}
    for c, r, code in zip(cases, results, codes):
        b = brief(c)
        if r["r"] in ("panic", "crash"):
            ctx.violations.append(("panic: %s" % r.get("msg", ""), {"case": c, "brief": b})); continue
        if r["r"] == "err": stats["err"] += 1
        if code is None:
            if r["r"] == "ok" and c["mode"] in ("exp", "exp_factor") and 60 < cabs(r["alpha"]) < 705: judge_large(ctx, c, r, stats)
            continue
        if c["mode"] == "group":
            if code & 1: stats["group_ok"] += 1
            else: ctx.violations.append(("exp(aP) exp(bP) differs from exp((a+b)P) on the implementation's outputs", {"case": c, "brief": b}))
            if code & 2: stats["exp0_ok"] += 1
            else: ctx.violations.append(("exp(0*P) is not the identity", {"case": c, "brief": b}))
            continue
        for bit, nm in ((1, "class_agrees"), (2, "model_close"), (4, "model_equal"), (8, "series_spec_close"), (32, "oracle_matches_series")):
            if code & bit: stats[nm] += 1
        if not (code & 16):
            if c["mode"] == "neg_i_dt" and r["r"] == "ok":
                what = "apply_exp_neg_i_dt accepted a coefficient with an imaginary part (or an out-of-range factor)"
            elif r["r"] == "ok": what = "a string with a factor outside the register was accepted"
            else: what = "a valid call was rejected: %s" % r.get("e")
            ctx.violations.append((what, {"case": c, "brief": b}))
        elif not (code & 8):
            ctx.violations.append(("result differs from exp(alpha P)|psi> computed with the independent Taylor series [%s]" % c["mode"], {"case": c, "brief": b, "verdict_bits": code}))
        elif not (code & 32):
            ctx.broken.append("harness-supplied libm values disagree with the Taylor series on %s" % json.dumps(b))
        elif not (code & 1) or not (code & 2):
            ctx.broken.append("correspondence model-vs-impl differs (Spec still met) on %s" % json.dumps(b))
    return stats

def run(ctx):
    proof_ok = proof_check(ctx)
    if ctx.thorough() and proof_ok:
        coqchk(ctx)
    cases = gen_cases(ctx)
    results, codes, skipped = run_cases(ctx, cases)
    stats = judge(ctx, cases, results, codes)
    stats["overflow_region_not_judged"] = skipped
    ctx.broken = ctx.broken[:5]
    modes = {}
    for c in cases: modes[c["mode"]] = modes.get(c["mode"], 0) + 1
    mags = sorted(cabs(r["alpha"]) for r in results if "alpha" in r)
    return finish(ctx, trusted=TRUSTED, evaluations=len(cases), nontrivial=sum(1 for c in codes if c is not None),
                  rule="random strings on 1..6(8) qubits incl. the empty string; coefficients generic / real / imaginary / 0 / 1e-12 / |a| up to ~25 / multiples of pi; "
                       "apply_exp, apply_exp_factor (generic, real, purely imaginary, zero factors), apply_exp_neg_i_dt (real coefficients, and imaginary parts from 5e-324 to 2 that must be refused); "
                       "out-of-range factors; group law and exp(0)=I on the implementation's outputs; reference = Taylor series in exact fixed-point inside Coq",
                  samples=[brief(c) for c in cases[:2]], extra={"verdict_counts": stats, "cases_by_mode": modes,
                         "alpha_magnitude_quantiles": [mags[0], mags[len(mags) // 2], mags[-1]] if mags else []})

def replay(ctx, path):
    body = json.load(open(path))
    case = body["replay"].get("case")
    if not case:
        print("replay file carries no concrete case:", body["what"]); return 1
    results, codes, _ = run_cases(ctx, [case])
    n0 = len(ctx.violations)
    judge(ctx, [case], results, codes)
    print(json.dumps({"brief": brief(case), "impl": results[0]["r"], "verdict_bits": codes[0], "violations": [w for w, _ in ctx.violations[n0:]]}, indent=1))
    return 1 if len(ctx.violations) > n0 else 0
