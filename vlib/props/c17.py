"""C17: OpenCL kernels compute the CPU semantics and are free of work-item races."""
import struct, math
from ..common import *
from ..gatecases import coq_op, placements, rand_params, GATE_IMPORTS, NPARAMS

TRUSTED = [
    "Coq 8.16.1 kernel; vm_compute only to RUN the kernel models (emulated binary32) and the comparisons on the cases",
    "hand-written kernel and host-launch model (Model/GpuKernels.v) tied to the .cl files and to execute_on_gpu by this run: "
    "the crate is built with features gpu + verif-hooks and linked against a stand-in libOpenCL (/verif/gpu/standin) which compiles the program "
    "source the crate passes (its own kernels/*.cl, concatenated as gpu_context.rs does) with clang -x cl and calls the kernel once per "
    "work-item in a chosen order; the real host code (buffer upload, argument marshalling, NDRange size, read-back, context mutex and buffer reuse) runs unmodified",
    "the stand-in itself (about 400 lines of C: buffers in host memory, clSetKernelArg size check against the kernel's parameter list, "
    "x86-64 SysV call of the kernel symbol), clang's OpenCL C front end and code generator; a real device's scheduler, barriers and memory model are not exhibited",
    "single-precision accuracy is measured (1e-5 relative to max(1, |v|_inf)); the ring-level theorems treat the narrowing to float as a change of scalar instance",
    "hook: verif_hooks::OPENCL_THRESHOLD (feature verif-hooks) lowers the OpenCL size threshold so that small registers take the GPU branch",
]
IMPORTS = GATE_IMPORTS + "\nFrom QI Require Import Model.GpuKernels Run.Float32Inst Run.EvalGpu."
GPU_KINDS = ["H", "X", "Y", "Z", "S", "Sdag", "T", "Tdag", "P", "RX", "RY", "RZ", "SWAP", "Match"]
KERNEL = {"H": "hadamard_kernel", "X": "pauli_x_kernel", "Y": "pauli_y_kernel", "Z": "pauli_z_kernel", "S": "phase_s_sdag_kernel",
          "Sdag": "phase_s_sdag_kernel", "T": "phase_shift_kernel", "Tdag": "phase_shift_kernel", "P": "phase_shift_kernel", "RX": "rotate_x_kernel",
          "RY": "rotate_y_kernel", "RZ": "rotate_z_kernel", "SWAP": "swap_kernel", "Match": "match_gate_kernel"}
GPUH = os.path.join(ROOT, "harness-gpu")
STANDIN = os.path.join(ROOT, "gpu", "standin")
ORDERS_Q = ["asc", "desc", "evenodd", "stride:3", "rand:1"]
ORDERS_T = ["asc", "desc", "evenodd", "stride:3", "stride:5", "rand:1", "rand:2", "rand:3"]

def f32(x): return struct.unpack("f", struct.pack("f", x))[0]
def f32bits(x): return struct.pack("<f", x).hex()
def i32bits(x): return struct.pack("<i", x).hex()

def build_gpu(ctx):
    rc, out = sh("./build.sh 2>&1", cwd=STANDIN, timeout=300)
    if rc != 0:
        return False, "stand-in OpenCL did not build: " + out[-400:]
    lock = os.path.join(GPUH, "Cargo.lock")
    if not os.path.exists(lock):
        shutil.copy(os.path.join(REPO, "Cargo.lock"), lock)
    env = dict(os.environ, CARGO_TARGET_DIR=os.path.join(HARNESS, "target-gpu"), CARGO_NET_OFFLINE="true", RUSTFLAGS="-L " + STANDIN)
    rc, out = sh("cargo build --release --offline 2>&1", cwd=GPUH, timeout=1800, env=env)
    return rc == 0, out[-600:]

def run_gpu(cases, nproc=8):
    exe = os.path.join(HARNESS, "target-gpu", "release", "qi-harness-gpu")
    env = dict(os.environ, LD_LIBRARY_PATH=STANDIN + ":" + os.environ.get("LD_LIBRARY_PATH", ""))
    def chunk(cs):
        p = subprocess.run([exe], input="\n".join(json.dumps(c) for c in cs) + "\n", stdout=subprocess.PIPE, stderr=subprocess.PIPE, text=True, timeout=1800, env=env)
        lines = [l for l in p.stdout.splitlines() if l.strip()]
        if p.returncode != 0 or len(lines) != len(cs):
            return [{"r": "crash", "stderr": p.stderr[-400:]}] * len(cs)
        return [json.loads(l) for l in lines]
    k = max(1, (len(cases) + nproc - 1) // nproc)
    parts = [cases[i:i + k] for i in range(0, len(cases), k)]
    from concurrent.futures import ThreadPoolExecutor
    with ThreadPoolExecutor(nproc) as ex:
        res = list(ex.map(chunk, parts))
    return [r for part in res for r in part]

def rand_vec32(rng, n, style):
    dim = 1 << n
    if style == "normalised":
        xs = [rng.gauss(0, 1) for _ in range(2 * dim)]
        nrm = math.sqrt(sum(x * x for x in xs))
        xs = [x / nrm for x in xs]
    else:
        xs = [rng.uniform(-1, 1) for _ in range(2 * dim)]
    return [float2bits(f32(x if abs(x) > 1e-3 else 0.25)) for x in xs]       # exactly representable in binary32, away from the subnormal range

def gen_cases(ctx):
    rng = ctx.rng
    cases = []
    orders = ORDERS_T if ctx.thorough() else ORDERS_Q
    def add(kind, n, ts, cs, special=False):
        cases.append({"op": "gpu_gate", "kind": kind, "params": rand_params(rng, kind, special=special), "n": n, "ts": ts, "cs": cs,
                      "v": rand_vec32(rng, n, rng.choice(["generic", "normalised"])), "orders": orders, "thr": 10})
    for kind in GPU_KINDS:
        for n in ((2, 3, 4) if not ctx.thorough() else (2, 3, 4, 5)):
            pl = placements(n, kind)
            rng.shuffle(pl)
            lim = {2: 8, 3: 10, 4: 8, 5: 8}[n] * (3 if ctx.thorough() else 1)
            for ts, cs in pl[:lim]:
                add(kind, n, list(ts), list(cs))
        # larger registers, sampled placements
        for n in ((6, 8) if not ctx.thorough() else (6, 7, 8, 10, 12)):
            for _ in range(2 if not ctx.thorough() else 3):
                qs = list(range(n)); rng.shuffle(qs)
                if kind == "SWAP": ts, rest = qs[:2], qs[2:]
                elif kind == "Match":
                    t = rng.randrange(n - 1); ts = [t]; rest = [q for q in range(n) if q not in (t, t + 1)]
                else: ts, rest = qs[:1], qs[1:]
                cs = rng.sample(rest, min(len(rest), rng.choice([0, 1, 2, 3])))
                add(kind, n, ts, cs, special=(rng.random() < 0.2))
    # a control listed twice (the CPU path treats it as one control; so must every kernel's control test)
    for kind in GPU_KINDS:
        for n in (3, 4):
            con = [p for p in placements(n, kind) if p[1]]
            if not con: continue
            for _ in range(2):
                ts, cs = rng.choice(con)
                cs = list(cs) + [rng.choice(list(cs))]
                rng.shuffle(cs)
                cases.append({"op": "gpu_gate", "kind": kind, "params": rand_params(rng, kind), "n": n, "ts": list(ts), "cs": cs,
                              "v": rand_vec32(rng, n, "generic"), "orders": orders, "thr": 10})
    # amplitude vectors with structure: exact zeros next to purely real and purely imaginary entries (what X / Y / S leave behind on a
    # basis state), for every kernel; and every quarter / eighth turn of either sign for the parametrised ones
    from ..gatecases import rand_vec
    def axis32(n): return [float2bits(f32(bits2float(x))) for x in rand_vec(rng, n, "axis")]
    for kind in GPU_KINDS:
        for n in (2, 3, 4):
            pl = placements(n, kind); rng.shuffle(pl)
            for ts, cs in pl[:6]:
                cases.append({"op": "gpu_gate", "kind": kind, "params": rand_params(rng, kind), "n": n, "ts": list(ts), "cs": list(cs), "v": axis32(n), "orders": orders, "thr": 10})
    for kind in ("P", "RX", "RY", "RZ"):
        # ... and the small angles of a long QFT ladder (pi / 2^k, whose cosine rounds to 1 in binary32 while the sine does not vanish)
        for ang in (math.pi / 2, -math.pi / 2, math.pi / 4, -math.pi / 4, math.pi, -math.pi, 0.0, 3 * math.pi / 2, -3 * math.pi / 2, 2 * math.pi,
                    math.pi / 2**12, math.pi / 2**14, -math.pi / 2**15, 2e-4, -1e-4, math.pi / 2**18):
            n = rng.choice([2, 3])
            for ts, cs in rng.sample(placements(n, kind), 2):
                cases.append({"op": "gpu_gate", "kind": kind, "params": [float2bits(ang)], "n": n, "ts": list(ts), "cs": list(cs),
                              "v": rand_vec32(rng, n, "generic"), "orders": orders, "thr": 10})
    # angles far beyond one turn: cos/sin must be taken in double precision and only then narrowed to binary32
    # (narrowing the angle first loses |angle| * 2^-24 radians of phase)
    for kind in GPU_KINDS:
        k = NPARAMS.get(kind, 0)
        if kind == "U2" or not k: continue
        for big in ([1000.1, -98765.4321] if not ctx.thorough() else [1000.1, 12345.678, -98765.4321, 1000000.3]):
            n = rng.choice([2, 3, 4])
            pl = placements(n, kind)
            ts, cs = rng.choice(pl)
            params = [float2bits(big * (1 + 0.37 * i)) for i in range(k)]
            cases.append({"op": "gpu_gate", "kind": kind, "params": params, "n": n, "ts": list(ts), "cs": list(cs),
                          "v": rand_vec32(rng, n, "normalised"), "orders": orders, "thr": 10})
    return cases

def oracle32(kind, oracle):
    return [float2bits(f32(bits2float(h))) for h in oracle]

def expected_args(case, orc32):
    """scalar arguments the host must pass after (state buffer): n, target, (control buffer), #controls, then the extras"""
    kind = case["kind"]
    o = [bits2float(h) for h in orc32]
    base = [i32bits(case["n"]), i32bits(case["ts"][0]), i32bits(len(case["cs"]))]
    tq = f32(math.cos(math.pi / 4)), f32(math.sin(math.pi / 4))
    extra = {"H": [], "X": [], "Y": [], "Z": [], "S": [f32bits(1.0)], "Sdag": [f32bits(-1.0)],
             "T": [f32bits(tq[0]), f32bits(tq[1])], "Tdag": [f32bits(f32(math.cos(-math.pi / 4))), f32bits(f32(math.sin(-math.pi / 4)))]}
    if kind in extra: ex = extra[kind]
    elif kind in ("P", "RX", "RY", "RZ"): ex = [f32bits(o[0]), f32bits(o[1])]
    elif kind == "SWAP": ex = [i32bits(case["ts"][1])]
    else: ex = [i32bits(case["ts"][0] + 1), f32bits(o[0]), f32bits(o[1]), f32bits(o[2]) + f32bits(o[3]), f32bits(o[4]) + f32bits(o[5])]
    return base + ex

def launch_problem(case, run, orc32):
    ls = run.get("launches", [])
    if len(ls) != 1: return "expected exactly one kernel launch, saw %d" % len(ls)
    l = ls[0]
    if l["kernel"] != KERNEL[case["kind"]]: return "launched %s, expected %s" % (l["kernel"], KERNEL[case["kind"]])
    scal = [a["bytes"] for a in l["args"] if "bytes" in a]
    if scal != expected_args(case, orc32): return "scalar arguments %s differ from the operator's %s" % (scal, expected_args(case, orc32))
    if [a.get("buffer", False) for a in l["args"]][:4] != [True, False, False, True]: return "buffers are not arguments 0 and 3"
    return None

def coq_term(case, res):
    g = res["gpu"][0]
    orc = res["oracle"]
    o32 = oracle32(case["kind"], orc)
    g32, _ = coq_op(case["kind"], o32)
    g64, _ = coq_op(case["kind"], orc)
    tq = cqc(float2bits(f32(math.cos(math.pi / 4))), float2bits(f32(math.sin(math.pi / 4))))
    gws = g["launches"][0]["gws"] if g.get("launches") else 0
    return "check_gpu_case %s %s %s %s %s %s %s %s %s %s" % (g32, g64, tq, cqN(case["n"]), cqNs(case["ts"]), cqNs(case["cs"]), cqvec(case["v"]),
                                                          cqvec(g["v"]), cqvec(res["cpu"]["v"]), cqN(gws))

def brief(case):
    return {"kind": case["kind"], "n": case["n"], "targets": case["ts"], "controls": case["cs"], "params": [bits2float(p) for p in case["params"]],
            "orders": len(case["orders"])}

def run(ctx):
    proof_ok = proof_check(ctx)
    if ctx.thorough() and proof_ok:
        coqchk(ctx)
    ok, out = build_gpu(ctx)
    if not ok:
        ctx.broken.append("the crate does not build with features gpu + verif-hooks against the stand-in OpenCL: " + out.replace("\n", " | ")[-400:])
        return finish(ctx, trusted=TRUSTED, rule="gpu harness did not build")
    cases = gen_cases(ctx)
    results = run_gpu(cases)
    stats = {"cases": len(cases), "gpu_branch_taken": 0, "orders_identical": 0, "launch_args_as_expected": 0, "model_exact": 0, "model_close": 0,
             "model_order_indep": 0, "kernel_close_to_cpu": 0, "kernel_close_to_spec": 0, "gws_equal": 0, "work_item_orders": len(cases[0]["orders"]), "by_kind": {}}
    terms, idx = [], []
    for i, (c, r) in enumerate(zip(cases, results)):
        if r.get("r") != "done" or any(g.get("r") != "ok" for g in r["gpu"]) or r["cpu"].get("r") != "ok":
            msg = r.get("stderr") or [g.get("e") or g.get("msg") for g in r.get("gpu", []) if g.get("r") != "ok"][:1] or r.get("cpu")
            if r.get("r") == "done" and r["cpu"].get("r") == "ok":
                ctx.violations.append(("the OpenCL branch fails where the CPU branch succeeds: %s" % msg, {"case": c, "brief": brief(c), "gpu": [g.get("e") for g in r["gpu"]]}))
            else:
                ctx.broken.append("GPU harness failed on %s: %s" % (json.dumps(brief(c)), str(msg)[:300]))
            continue
        if all(g.get("gpu_branch") for g in r["gpu"]): stats["gpu_branch_taken"] += 1
        else: ctx.broken.append("the OpenCL branch was not taken (threshold hook ineffective) on %s" % json.dumps(brief(c)))
        vs = [g["v"] for g in r["gpu"]]
        if all(v == vs[0] for v in vs): stats["orders_identical"] += 1
        else:
            k = next(j for j, v in enumerate(vs) if v != vs[0])
            ctx.violations.append(("%s kernel result depends on the work-item order: order %s differs from %s on %s" % (
                c["kind"], c["orders"][k], c["orders"][0], json.dumps(brief(c))), {"case": dict(c, orders=[c["orders"][0], c["orders"][k]]), "brief": brief(c)}))
        lp = launch_problem(c, r["gpu"][0], oracle32(c["kind"], r["oracle"]))
        if lp is None: stats["launch_args_as_expected"] += 1
        else: ctx.broken.append("host launch differs from the model of execute_on_gpu on %s: %s" % (json.dumps(brief(c)), lp))
        terms.append(coq_term(c, r)); idx.append(i)
    outs = coq_eval(ctx, IMPORTS, terms)
    for i, o in zip(idx, outs):
        c, r = cases[i], results[i]
        code = parseN(o)
        for bit, nm in ((1, "model_exact"), (2, "model_close"), (4, "model_order_indep"), (8, "kernel_close_to_cpu"), (16, "kernel_close_to_spec"), (32, "gws_equal")):
            if code & bit: stats[nm] += 1
        stats["by_kind"][c["kind"]] = stats["by_kind"].get(c["kind"], 0) + 1
        if not (code & 8):
            ctx.violations.append(("%s: the OpenCL kernel's result differs from the CPU implementation's beyond single precision on %s" % (c["kind"], json.dumps(brief(c))),
                                   {"case": dict(c, orders=["asc"]), "brief": brief(c), "verdict_bits": code}))
        elif not (code & 2) or not (code & 4) or not (code & 32):
            ctx.broken.append("kernel model (Model/GpuKernels.v) differs from the real kernel (result still equals the CPU's) on %s bits=%d" % (json.dumps(brief(c)), code))
    ctx.broken = ctx.broken[:6]
    return finish(ctx, trusted=TRUSTED, evaluations=len(cases) * len(cases[0]["orders"]), nontrivial=len(idx),
                  rule="every operator with an OpenCL branch (14 operators, 11 kernels), all placements and control subsets on 2..4(5) qubits and sampled ones to %d qubits, "
                       "through the real host code and the real kernel source under %d work-item orders: orders bit-identical; kernel vs CPU (1e-5); kernel vs the Gallina kernel "
                       "model in emulated binary32 (exact) under three orders; launch (kernel name, global size, argument bytes) vs the host model" % (
                           max(c["n"] for c in cases), len(cases[0]["orders"])),
                  samples=[brief(c) for c in cases[:2]], extra={"verdict_counts": stats})

def replay(ctx, path):
    body = json.load(open(path))
    case = body["replay"].get("case")
    if not case:
        print("replay file carries no concrete case:", body["what"]); return 1
    ok, out = build_gpu(ctx)
    if not ok:
        print("gpu harness does not build"); return 1
    r = run_gpu([case], nproc=1)[0]
    if r.get("r") != "done" or r["gpu"][0].get("r") != "ok":
        print(json.dumps({"brief": brief(case), "impl": r})[:1500]); return 1
    same = all(g["v"] == r["gpu"][0]["v"] for g in r["gpu"])
    code = parseN(coq_eval(ctx, IMPORTS, [coq_term(case, r)])[0])
    print(json.dumps({"brief": brief(case), "orders_identical": same, "verdict_bits": code}, indent=1))
    return 0 if (same and code & 8) else 1
