"""C10: Trotter steps."""
from ..common import *
from ..gatecases import rand_vec
from ..paulicases import *
import math

TRUSTED = [
    "Coq 8.16.1 kernel; vm_compute to RUN the model, the closed-form Hamiltonian action and the Taylor-series exact evolution on the cases",
    "libm values of each term exponential are parameters of the model (supplied by the harness, computed with num_complex from coefficient*(-i dt))",
    "product-formula error bounds (Childs-Su-Tran-Wiebe-Zhu commutator bounds, evaluated with ||[A,B]|| <= 2|a||b| for anticommuting Pauli strings) are checked NUMERICALLY only; not formalised",
    "hand-written model Model/Trotter.v tied to time_evolution.rs by this correspondence run; float rounding not modelled",
]
IMPORTS = PAULI_IMPORTS + "\nFrom QI Require Import Model.Trotter."

def anticommute(a, b):
    da, db = dict((q, p) for q, p in a["ops"]), dict((q, p) for q, p in b["ops"])
    return sum(1 for q in da if q in db and da[q] != db[q]) % 2 == 1

def coefabs(t): return math.hypot(bits2float(t["coef"][0]), bits2float(t["coef"][1]))

def local_bound(terms, dt, second):
    c = [coefabs(t) for t in terms]
    m = len(terms)
    t = abs(dt)
    if not second:
        return t * t * sum(c[j] * c[k] for j in range(m) for k in range(j + 1, m) if anticommute(terms[j], terms[k]))
    tot = 0.0
    for j in range(m):
        lam = sum(c[k] for k in range(m) if k != j)
        lam_a = sum(c[k] for k in range(m) if k != j and anticommute(terms[j], terms[k]))
        tot += (1.0 / 3.0) * lam * lam_a * c[j] + (1.0 / 6.0) * c[j] * c[j] * lam_a
    # nested commutators of the OTHER terms among themselves also enter [L,[L,H_j]]: add them conservatively
    anti_pairs = sum(c[k] * c[l] for k in range(m) for l in range(k + 1, m) if anticommute(terms[k], terms[l]))
    tot += (2.0 / 3.0) * anti_pairs * sum(c)
    return t ** 3 * tot

def rand_ham(rng, n, family):
    m = rng.randrange(1, 7)
    real = lambda: [float2bits(rng.uniform(-1.5, 1.5)), float2bits(0.0)]
    if family == "z_only":
        return [{"ops": [[q, "Z"] for q in rng.sample(range(n), rng.randrange(1, min(n, 3) + 1))], "coef": real()} for _ in range(m)]
    if family == "disjoint":
        qs = list(range(n)); rng.shuffle(qs)
        out = []
        while qs and len(out) < m:
            w = rng.randrange(1, min(2, len(qs)) + 1)
            out.append({"ops": [[qs.pop(), rng.choice("XYZ")] for _ in range(w)], "coef": real()})
        return out
    if family == "ising_like":
        out = [{"ops": [[q, "Z"], [(q + 1) % n, "Z"]], "coef": real()} for q in range(n) if n > 1 and q != (q + 1) % n]
        out += [{"ops": [[q, "X"]], "coef": real()} for q in range(n)]
        rng.shuffle(out)
        return out[:8]
    return [dict(rand_string(rng, n, allow_empty=(rng.random() < 0.1)), coef=real()) for _ in range(m)]

def gen_cases(ctx):
    rng = ctx.rng
    cases = []
    def mk(mode, n, terms, dt, **kw):
        c = {"op": "trotter", "mode": mode, "n": n, "v": rand_vec(rng, n, rng.choice(["normalised", "generic"])), "terms": terms,
             "dt": float2bits(dt), "thr": rng.choice([10, 1])}
        c.update(kw)
        # keep |t| * sum|c_j| <= 8 so that the float Taylor reference of exp(-iHt) does not suffer cancellation
        S = sum(coefabs(t) for t in terms) or 1.0
        kk = c.get("k", 1) if mode in ("evolve", "evolve_vs_steps") else 1
        if abs(dt) * max(kk, 1) * S > 8.0:
            dt = math.copysign(8.0 / (max(kk, 1) * S), dt); c["dt"] = float2bits(dt)
        cases.append(c)
    reps = 1 if not ctx.thorough() else 4
    for _ in range(reps):
        for fam in ["generic", "generic", "z_only", "disjoint", "ising_like"]:
            for n in (1, 2, 3, 4):
                for order in (1, 2):
                    terms = rand_ham(rng, n, fam)
                    if not terms: continue
                    dt = rng.choice([rng.uniform(-0.5, 0.5), rng.uniform(-0.05, 0.05), 1e-3, rng.uniform(-2, 2) if fam in ("z_only", "disjoint") else 0.1])
                    mk("step", n, terms, dt, order=order)
                    mk("evolve", n, terms, dt / 4, order=order, k=rng.choice([0, 1, 2, 5, 12]))
                    mk("rev", n, terms, dt * 3, order=2)
                    mk("evolve_vs_steps", n, terms, dt, order=order, k=rng.choice([0, 1, 3, 7, 20]))
    # very fine time steps: one step moves every amplitude by less than any "is it still the same state" tolerance, many steps do not
    for fam in ("generic", "z_only", "ising_like"):
        for n in (1, 2, 3):
            terms = rand_ham(rng, n, fam)
            if not terms: continue
            for order in (1, 2):
                dt = rng.choice([1e-8, -3e-9, 2.5e-10, 1e-12])
                mk("evolve_vs_steps", n, terms, dt, order=order, k=rng.choice([2, 3, 7, 20]))
                mk("evolve", n, terms, dt, order=order, k=rng.choice([2, 5, 40]))
    # a constant term (a string without factors: an energy offset) among the terms: it contributes its phase e^{-i c dt} in every step
    for n in (1, 2, 3):
        for order in (1, 2):
            const = {"ops": [], "coef": [float2bits(rng.choice([0.9, -1.3, 2.1])), float2bits(0.0)]}
            others = [dict(rand_string(rng, n, allow_empty=False), coef=[float2bits(rng.uniform(-1, 1)), float2bits(0.0)]) for _ in range(rng.randrange(1, 3))]
            for terms in (others + [const], [const] + others, [const]):
                mk("step", n, terms, 0.7, order=order); mk("evolve", n, terms, 0.35, order=order, k=2)
    # terms that were used once (and cloned) before their last factor was added
    for n in (2, 3):
        for order in (1, 2):
            terms = [dict(rand_string(rng, n, allow_empty=False), coef=[float2bits(rng.uniform(-1, 1)), float2bits(0.0)]) for _ in range(3)]
            for t in terms:
                if len(t["ops"]) >= 2: t["used_after"] = [1, n]
            mk("step", n, terms, 0.3, order=order); mk("evolve_vs_steps", n, terms, 0.2, order=order, k=2)
    # Hamiltonians that are not empty but whose weights are all exactly 0 / -0 (the start of a sweep, ising_1d_uniform with mu = 0) or far
    # below the square root of the smallest normal number: they evolve (as the identity, up to e^{-i c t}), they are not an error
    for n in (1, 2, 3):
        for w in (0.0, -0.0, 1e-170, -3e-200):
            terms = [dict(rand_string(rng, n, allow_empty=False), coef=[float2bits(w), float2bits(0.0)]) for _ in range(rng.randrange(1, 4))]
            for order in (1, 2):
                mk("step", n, terms, 0.3, order=order)
                mk("evolve", n, terms, 0.2, order=order, k=rng.choice([0, 1, 4]))
    # worker counts that do not divide the vector length (3, 5, 6 workers on 16 .. 256 amplitudes): a step is the same operator
    for k in (3, 5, 6):
        for n in (4, 5, 7):
            for fam in ("z_only", "generic"):
                terms = rand_ham(rng, n if n < 7 else 4, fam)
                if not terms: continue
                order = rng.choice([1, 2])
                mk("step", n, terms, rng.uniform(-0.4, 0.4), order=order, in_pool=k)
                mk("evolve_vs_steps", n, terms, rng.uniform(-0.2, 0.2), order=order, k=rng.choice([2, 3]), in_pool=k)
    # the order of accuracy needs >= 3 terms with non-commuting outer terms, at two step sizes
    for _ in range(8 * reps):
        n = rng.randrange(2, 5)
        terms = [{"ops": [[0, "X"]], "coef": [float2bits(1.0), float2bits(0.0)]},
                 {"ops": [[0, "Z"], [1, "Z"]], "coef": [float2bits(0.7), float2bits(0.0)]},
                 {"ops": [[1, "Y"]], "coef": [float2bits(0.5), float2bits(0.0)]}] + [dict(rand_string(rng, n, allow_empty=False), coef=[float2bits(rng.uniform(-1, 1)), float2bits(0.0)]) for _ in range(rng.randrange(0, 3))]
        for dt in (0.02, 0.01):
            for order in (1, 2):
                mk("step", n, terms, dt, order=order)
    # errors: empty Hamiltonian, out-of-range qubit (also with dt = 0 and coefficient 0), imaginary coefficient is NOT refused by the steps
    for n in (1, 2, 3):
        for mode in ("step", "evolve"):
            for order in (1, 2):
                mk(mode, n, [], 0.1, order=order, k=2)
                if mode == "evolve":                 # the empty Hamiltonian is an error for every step count, 0 included
                    for k in (0, 1, 5):
                        mk(mode, n, [], rng.choice([0.1, 0.0]), order=order, k=k)
                bad = rand_string(rng, n, allow_empty=False); bad["ops"][0][0] = n + rng.randrange(0, 4); bad["coef"] = [float2bits(rng.choice([1.0, 0.0])), float2bits(0.0)]
                good = dict(rand_string(rng, n), coef=[float2bits(0.4), float2bits(0.0)])
                mk(mode, n, [good, bad], rng.choice([0.1, 0.0, -0.0]), order=order, k=rng.choice([1, 2]))
    return cases

def nterms_for(terms, t):
    return int(30 + 6 * abs(t) * sum(coefabs(x) for x in terms))

def coq_term(case, res):
    par = cqbool(case["n"] >= case["thr"])
    n, v = cqN(case["n"]), cqvec(case["v"])
    if case["mode"] == "rev":
        return "check_trotter_rev %s %s" % (v, cqvec(res["v"]))
    second = case.get("order", 1) == 2
    k = case.get("k", 1) if case["mode"] in ("evolve", "evolve_vs_steps") else 1
    dt = bits2float(case["dt"])
    H = with_order(case["terms"], res["readback"])
    orc = "[" + ";".join("(%s,%s,%s)" % (cqc(o[0], o[1]), cqc(o[2], o[3]), cqc(o[4], o[5])) for o in res["oracle"]) + "]"
    bound = k * local_bound(case["terms"], dt, second)
    vn = math.sqrt(sum(bits2float(x) ** 2 for x in case["v"]))
    t = k * dt
    return "check_trotter_case %s %s %s %s (Z.to_nat %d) %s %s %s %s (Z.to_nat %d) %s" % (
        par, cqbool(second), cq_sum(H), orc, k, n, v, cqf(float2bits(t)), cqf(float2bits(bound * vn)), nterms_for(case["terms"], t), cq_pimpl(res))

def brief(case):
    return {"mode": case["mode"], "n": case["n"], "order": case.get("order"), "k": case.get("k"), "dt": bits2float(case["dt"]),
            "path": "par" if case["n"] >= case["thr"] else "seq",
            "terms": [[t["ops"], bits2float(t["coef"][0])] for t in case["terms"][:8]]}

def run_cases(ctx, cases):
    results = run_harness(cases, nproc=8)
    terms, idx = [], []
    for i, (c, r) in enumerate(zip(cases, results)):
        if r["r"] in ("ok", "err"):
            if c["mode"] == "rev" and r["r"] != "ok": continue
            terms.append(coq_term(c, r)); idx.append(i)
    outs = coq_eval(ctx, IMPORTS, terms)
    codes = [None] * len(cases)
    for i, o in zip(idx, outs):
        codes[i] = parseN(o)
    return results, codes

def judge(ctx, cases, results, codes):
    stats = {"class_agrees": 0, "model_close": 0, "model_equal": 0, "within_bound_of_exact": 0, "exact_when_commuting": 0, "norm_preserved": 0,
             "reversible": 0, "steps_equal": 0, "zero_identity": 0, "err": 0}
    for c, r, code in zip(cases, results, codes):
        b = brief(c)
        if r["r"] in ("panic", "crash"):
            ctx.violations.append(("panic: %s" % r.get("msg", ""), {"case": c, "brief": b})); continue
        if r["r"] == "err": stats["err"] += 1
        if code is None: continue
        if c["mode"] == "rev":
            if code & 1: stats["reversible"] += 1
            else: ctx.violations.append(("second-order step with -dt does not undo the step with +dt", {"case": c, "brief": b}))
            continue
        for bit, nm in ((1, "class_agrees"), (2, "model_close"), (4, "model_equal"), (8, "within_bound_of_exact"), (32, "norm_preserved")):
            if code & bit: stats[nm] += 1
        commuting = not any(anticommute(x, y) for i, x in enumerate(c["terms"]) for y in c["terms"][i + 1:])
        if commuting and code & 8 and r["r"] == "ok": stats["exact_when_commuting"] += 1
        if c["mode"] == "evolve_vs_steps":
            if r.get("steps_equal"): stats["steps_equal"] += 1
            else: ctx.violations.append(("trotter_evolve_state with k steps differs from k successive steps", {"case": c, "brief": b}))
            if r.get("zero_is_identity"): stats["zero_identity"] += 1
            else: ctx.violations.append(("trotter_evolve_state with 0 steps is not the identity", {"case": c, "brief": b}))
        if not (code & 16):
            ctx.violations.append(("an empty Hamiltonian / out-of-range qubit was accepted" if r["r"] == "ok" else "a valid Hamiltonian was rejected: %s" % r.get("e"), {"case": c, "brief": b}))
        elif not (code & 8):
            ctx.violations.append(("evolved state is farther from exp(-iHt)|psi> than the product-formula bound allows%s" % (" (terms commute: must be exact)" if commuting else ""),
                                   {"case": c, "brief": b, "verdict_bits": code}))
        elif not (code & 32):
            ctx.violations.append(("norm not preserved for a real-coefficient Hamiltonian", {"case": c, "brief": b}))
        elif not (code & 1) or not (code & 2):
            ctx.broken.append("correspondence model-vs-impl differs (Spec still met) on %s" % json.dumps(b))
    return stats

def run(ctx):
    proof_ok = proof_check(ctx)
    if ctx.thorough() and proof_ok:
        coqchk(ctx)
    cases = gen_cases(ctx)
    results, codes = run_cases(ctx, cases)
    stats = judge(ctx, cases, results, codes)
    ctx.broken = ctx.broken[:5]
    modes = {}
    for c in cases: modes[c["mode"]] = modes.get(c["mode"], 0) + 1
    return finish(ctx, trusted=TRUSTED, evaluations=len(cases), nontrivial=sum(1 for c in codes if c is not None),
                  rule="random real-coefficient Hamiltonians (generic; commuting families: Z-only, disjoint supports; Ising-like non-commuting) of 1..8 terms on 1..4 qubits, "
                       "both orders, dt from 1e-3 to 2, k = 0..20; single steps, evolve, evolve-vs-successive-steps (bitwise), S2(-dt)S2(dt); 3+ term non-commuting Hamiltonians at two step sizes; "
                       "empty Hamiltonian and out-of-range qubits (also with dt = 0 / coefficient 0); reference = Taylor series of exp(-iHt) through the closed-form H action, in Coq",
                  samples=[brief(c) for c in cases[:2]], extra={"verdict_counts": stats, "cases_by_mode": modes})

def replay(ctx, path):
    body = json.load(open(path))
    case = body["replay"].get("case")
    if not case:
        print("replay file carries no concrete case:", body["what"]); return 1
    results, codes = run_cases(ctx, [case])
    n0 = len(ctx.violations)
    judge(ctx, [case], results, codes)
    print(json.dumps({"brief": brief(case), "impl": results[0]["r"], "verdict_bits": codes[0], "violations": [w for w, _ in ctx.violations[n0:]]}, indent=1))
    return 1 if len(ctx.violations) > n0 else 0
