"""Translator for C07: reads the gate wrappers of /repo (State methods, the chainable forms, Gate constructors,
CircuitBuilder methods, circuit! arms) and evaluates each body SYMBOLICALLY down to the operator applications it
performs: a list of items  Call(op, targets, controls)  or  Each(list, Call with the loop variable as the only target).
The result is emitted as Gallina (gen/Wiring.v) and as the list of surfaces the harness executes.

The Rust subset understood is exactly what the wrappers use (let / for / assignment / call / method call / struct
literal / closure / vec! / & / ? / if-return guards); anything else raises Untranslatable, which the check reports as a
broken proof obligation (the executed surfaces then decide whether the property itself fails)."""
import re, os, json

class Untranslatable(Exception):
    pass

# ---------------------------------------------------------------- tokens
TOK = re.compile(r"""
    (?P<ws>\s+) | (?P<lc>//[^\n]*) | (?P<bc>/\*.*?\*/)
  | (?P<str>"(?:\\.|[^"\\])*") | (?P<chr>'(?:\\.|[^'\\])') | (?P<life>'[A-Za-z_]\w*)
  | (?P<num>\d[\d_]*(?:\.\d+)?(?:[eE][+-]?\d+)?(?:_?[a-z]\w*)?)
  | (?P<id>\$?[A-Za-z_]\w*)
  | (?P<op>::|->|=>|==|!=|<=|>=|&&|\|\||\.\.|<<|>>|[-+*/%=<>!&|.,;:(){}\[\]?\#$@^~])
""", re.X | re.S)

def tokenize(src):
    out = []
    i = 0
    while i < len(src):
        m = TOK.match(src, i)
        if not m:
            raise Untranslatable("cannot tokenize at %r" % src[i:i + 30])
        i = m.end()
        k = m.lastgroup
        if k in ("ws", "lc", "bc"):
            continue
        out.append((k, m.group()))
    return out

def match_brace(toks, i, open_="{", close="}"):
    """toks[i] is the opening bracket; returns index of the matching close"""
    depth = 0
    j = i
    while j < len(toks):
        t = toks[j][1]
        if t == open_: depth += 1
        elif t == close:
            depth -= 1
            if depth == 0:
                return j
        j += 1
    raise Untranslatable("unbalanced %s" % open_)

# ---------------------------------------------------------------- items: impl blocks and their functions
def find_impl(toks, header):
    """index range (body start, body end) of `impl <header...> {`; header is a list of token strings"""
    n = len(header)
    for i in range(len(toks) - n):
        if toks[i][1] == "impl" and [t[1] for t in toks[i + 1:i + 1 + n]] == header and toks[i + 1 + n][1] == "{":
            j = match_brace(toks, i + 1 + n)
            return i + 2 + n, j
    raise Untranslatable("impl %s not found" % " ".join(header))

def split_top(toks, sep=","):
    """split a token list at top-level separators (ignoring nested brackets and generics in < >)"""
    parts, cur, depth, ang, bar = [], [], 0, 0, False
    for t in toks:
        s = t[1]
        if s == "|" and depth == 0 and (bar or not cur):      # closure parameter list `|a, &b|` at the start of a part
            bar = not bar; cur.append(t); continue
        if bar:
            cur.append(t); continue
        if s in "([{": depth += 1
        elif s in ")]}": depth -= 1
        elif s == "<": ang += 1
        elif s == ">" and ang > 0: ang -= 1
        if s == sep and depth == 0 and ang == 0:
            parts.append(cur); cur = []
        else:
            cur.append(t)
    if cur: parts.append(cur)
    return parts

SELF = {}
PUB = {}
def functions(toks, lo, hi):
    """all `fn name(params) [-> ret] { body }` directly inside toks[lo:hi] -> dict name -> (params, ret, body tokens)"""
    res = {}
    i = lo
    depth = 0
    while i < hi:
        s = toks[i][1]
        if s == "{": i = match_brace(toks, i) + 1; continue
        if s == "fn" and toks[i + 1][0] == "id":
            name = toks[i + 1][1]
            PUB[id(res), name] = i > 0 and toks[i - 1][1] == "pub"
            j = i + 2
            if toks[j][1] == "<":                       # generics
                while toks[j][1] != "(": j += 1
            pe = match_brace(toks, j, "(", ")")
            params = []
            has_self = False
            for p in split_top(toks[j + 1:pe]):
                txt = [t[1] for t in p]
                if "self" in txt[:3] and ":" not in txt:
                    has_self = True; continue
                k = txt.index(":")
                pname = txt[k - 1]
                params.append((pname, "".join(txt[k + 1:])))
            k = pe + 1
            ret = []
            while toks[k][1] not in ("{", ";"):
                ret.append(toks[k][1]); k += 1
            if toks[k][1] == ";":                       # trait declaration
                res[name] = (params, "".join(ret[1:]), None)
                SELF[id(res), name] = has_self
                i = k + 1; continue
            be = match_brace(toks, k)
            res[name] = (params, "".join(ret[1:]), toks[k + 1:be])
            SELF[id(res), name] = has_self
            i = be + 1; continue
        i += 1
    return res

# ---------------------------------------------------------------- expression / statement parser (the subset)
class P:
    def __init__(self, toks):
        self.t = toks; self.i = 0
    def peek(self, k=0):
        return self.t[self.i + k][1] if self.i + k < len(self.t) else None
    def kind(self, k=0):
        return self.t[self.i + k][0] if self.i + k < len(self.t) else None
    def eat(self, s=None):
        if self.i >= len(self.t): raise Untranslatable("unexpected end")
        tok = self.t[self.i]
        if s is not None and tok[1] != s: raise Untranslatable("expected %s, got %s" % (s, tok[1]))
        self.i += 1
        return tok[1]
    def done(self):
        return self.i >= len(self.t)

    def block(self):
        """statements until end; returns list of stmts"""
        st = []
        while not self.done():
            st.append(self.stmt())
        return st
    def sub(self, open_="{", close="}"):
        j = match_brace(self.t, self.i, open_, close)
        inner = self.t[self.i + 1:j]
        self.i = j + 1
        return inner
    def stmt(self):
        s = self.peek()
        if s == "let":
            self.eat()
            if self.peek() == "mut": self.eat()
            name = self.eat()
            if self.peek() == ":":
                while self.peek() != "=": self.eat()
            self.eat("=")
            e = self.expr()
            self.eat(";")
            return ("let", name, e)
        if s == "for":
            self.eat()
            pat = []
            while self.peek() != "in": pat.append(self.eat())
            self.eat("in")
            e = self.expr(no_struct=True)
            body = P(self.sub()).block()
            return ("for", [p for p in pat if p not in ("&", "(", ")", ",", "mut")], e, body)
        if s == "if":
            self.eat()
            cond = []
            while self.peek() != "{": cond.append(self.eat())
            body = self.sub()
            if self.peek() == "else":
                raise Untranslatable("if/else")
            txt = [t[1] for t in body]
            if txt[:2] != ["return", "Err"]:
                raise Untranslatable("if without `return Err`")
            return ("guard", cond)
        if s == "return":
            raise Untranslatable("return")
        # assignment or expression statement / tail expression
        if self.kind() == "id" and self.peek(1) == "=" :
            name = self.eat(); self.eat("=")
            e = self.expr(); self.eat(";")
            return ("assign", name, e)
        e = self.expr()
        if self.peek() == ";":
            self.eat(); return ("expr", e)
        if not self.done(): raise Untranslatable("junk after expression: %s" % self.peek())
        return ("tail", e)

    def expr(self, no_struct=False):
        e = self.primary(no_struct)
        while True:
            s = self.peek()
            if s == "?":
                self.eat(); e = ("try", e)
            elif s == ".":
                self.eat()
                name = self.eat()
                if self.peek() == "::":                  # turbofish
                    self.eat(); self.sub("<", ">")
                if self.peek() == "(":
                    args = self.args()
                    e = ("mcall", e, name, args)
                else:
                    e = ("field", e, name)
            else:
                return e
    def args(self):
        inner = self.sub("(", ")")
        return [P(a).whole_expr() for a in split_top(inner)]
    def whole_expr(self):
        e = self.expr()
        if not self.done(): raise Untranslatable("junk in expression: %s" % self.peek())
        return e
    def primary(self, no_struct=False):
        s = self.peek()
        if s == "&":
            self.eat()
            if self.peek() == "mut": self.eat()
            return self.expr(no_struct)
        if s == "*":
            self.eat(); return self.expr(no_struct)
        if s == "(":
            inner = self.sub("(", ")")
            parts = split_top(inner)
            if len(parts) == 1: return P(parts[0]).whole_expr()
            return ("tuple", [P(a).whole_expr() for a in parts])
        if s == "[":
            inner = self.sub("[", "]")
            return ("list", [P(a).whole_expr() for a in split_top(inner)])
        if s == "|":
            self.eat()
            ps = []
            while self.peek() != "|":
                t = self.eat()
                if t not in (",", "&", "(", ")"): ps.append(t)
            self.eat("|")
            if self.peek() == "{":
                body = P(self.sub()).block()
            else:
                body = [("tail", self.expr())]
            return ("closure", ps, body)
        if self.kind() == "num":
            return ("num", self.eat())
        if self.kind() == "id":
            path = [self.eat()]
            while self.peek() == "::" :
                self.eat()
                if self.peek() == "<":
                    self.sub("<", ">"); continue
                path.append(self.eat())
            if self.peek() == "!" and self.peek(1) in ("[", "("):
                self.eat()
                if path != ["vec"]: raise Untranslatable("macro %s!" % "::".join(path))
                inner = self.sub("[", "]")
                return ("list", [P(a).whole_expr() for a in split_top(inner)])
            if self.peek() == "(":
                return ("call", path, self.args())
            if self.peek() == "{" and not no_struct and path[-1][0].isupper():
                inner = self.sub()
                fields = []
                for f in split_top(inner):
                    txt = [t[1] for t in f]
                    if len(txt) == 1: fields.append((txt[0], ("path", [txt[0]])))
                    else:
                        if txt[1] != ":": raise Untranslatable("struct field")
                        fields.append((txt[0], P(f[2:]).whole_expr()))
                return ("struct", path, fields)
            return ("path", path)
        raise Untranslatable("unexpected token %s" % s)

# ---------------------------------------------------------------- symbolic values
# scalars:  ("sym", name)            a usize or f64 or matrix parameter of the surface
# lists:    ("slist", name) | ("llit", [scalars])
# operator: ("op", ctor-string, [scalar args])
# gate:     ("gate", op, ts-list, cs-list)
# gates:    python list of items  ("one", gate) | ("each", list, var, gate)
# state:    ("state", [items])      items as for gates (applications performed so far)
# builder:  ("builder", [items])
OPS = {
    # constructor expression (as written)  ->  canonical operator name
    "Hadamard": "H", "Pauli::X": "X", "Pauli::Y": "Y", "Pauli::Z": "Z", "Identity": "I", "PhaseS": "S", "PhaseT": "T",
    "PhaseSdag": "Sdag", "PhaseTdag": "Tdag", "CNOT": "CNOT", "SWAP": "SWAP", "Toffoli": "Toffoli",
    "PhaseShift::new": "P", "RotateX::new": "RX", "RotateY::new": "RY", "RotateZ::new": "RZ",
    "Unitary2::new": "U2", "Unitary2::from_ry_phase": "RYP", "Unitary2::from_ry_phase_dagger": "RYPdag",
    "Matchgate::new": "Match", "Matchgate": "Match",
}

class Ev:
    def __init__(self, gate_fns, builder_fns):
        self.gate_fns = gate_fns; self.builder_fns = builder_fns

    def op_of(self, path, args):
        key = "::".join(p for p in path if p not in ("crate", "components", "operator"))
        if key not in OPS: raise Untranslatable("unknown operator constructor %s" % key)
        return ("op", OPS[key], args)

    def run_fn(self, params, body, argvals, selfval):
        env = {"self": selfval}
        for (pn, _), v in zip(params, argvals): env[pn] = v
        return self.block(body, env)

    def block(self, stmts, env):
        res = None
        for st in stmts:
            k = st[0]
            if k == "let": env[st[1]] = self.ev(st[2], env)
            elif k == "assign": env[st[1]] = self.ev(st[2], env)
            elif k == "guard": pass
            elif k == "expr": self.ev(st[1], env)
            elif k == "tail": res = self.ev(st[1], env)
            elif k == "for":
                pat, lst, body = st[1], self.ev(st[2], env), st[3]
                if len(pat) != 1: raise Untranslatable("for over a tuple pattern")
                if lst[0] not in ("slist", "llit"): raise Untranslatable("for over a non-list")
                var = ("sym", "%" + pat[0])
                # run the body once symbolically on a fresh accumulator and record it as an `each`
                acc_names = [n for n, v in env.items() if isinstance(v, tuple) and v and v[0] in ("state", "builder")]
                before = {n: env[n] for n in acc_names}
                env2 = dict(env); env2[pat[0]] = var
                for n in acc_names: env2[n] = (env[n][0], [])
                self.block(body, env2)
                for n in acc_names:
                    new = env2[n][1]
                    if env2[n][0] != before[n][0]: raise Untranslatable("accumulator changed kind")
                    items = list(before[n][1])
                    for it in new:
                        if it[0] != "one": raise Untranslatable("nested loop")
                        items.append(("each", lst, var, it[1]))
                    env[n] = (before[n][0], items)
                    if n == "self" and "self" in env: pass
            else: raise Untranslatable(k)
        return res

    def ev(self, e, env):
        k = e[0]
        if k == "num": return ("sym", e[1])
        if k == "path":
            p = e[1]
            if len(p) == 1 and p[0] in env: return env[p[0]]
            return self.op_of(p, [])
        if k == "struct":
            o = self.op_of(e[1], [])
            fields = e[2]
            if o[1] in FIELD_ORDER:                    # named fields: constructor order, whatever order they are written in
                d = dict(fields)
                if sorted(d) != sorted(FIELD_ORDER[o[1]]): raise Untranslatable("fields of %s" % o[1])
                fields = [(n, d[n]) for n in FIELD_ORDER[o[1]]]
            elif fields: raise Untranslatable("struct literal with fields: %s" % o[1])
            return ("op", o[1], [self.ev(v, env) for _, v in fields])
        if k == "list":
            return ("llit", [self.ev(x, env) for x in e[1]])
        if k == "try": return self.unwrap(self.ev(e[1], env))
        if k == "closure": return ("closure", e[1], e[2], dict(env))
        if k == "field": raise Untranslatable("field access")
        if k == "call":
            path, args = e[1], [self.ev(a, env) for a in e[2]]
            if path == ["Ok"]: return args[0]
            if path == ["Box", "new"]: return args[0]
            if path[0] == "Self" and len(path) == 2 and path[1] in self.gate_fns and self.gate_fns[path[1]][2] is not None:
                path = ["Gate", path[1]]                 # a helper of the same impl, inlined
            if path[0] == "Gate" and len(path) == 2:
                if path[1] == "Operator":
                    return ("gate", args[0], self.aslist(args[1]), self.aslist(args[2]))
                if path[1] in self.gate_fns:
                    ps, ret, body = self.gate_fns[path[1]]
                    return self.run_fn(ps, P(body).block(), args, None)
                raise Untranslatable("Gate::%s" % path[1])
            return self.op_of(path, args)
        if k == "mcall":
            recv, name = self.ev(e[1], env), e[2]
            if name in ("clone", "into_iter", "iter", "collect", "to_vec", "as_slice", "unwrap"):
                return self.unwrap(recv) if name == "unwrap" else recv
            args = [self.ev(a, env) for a in e[3]]
            if name == "apply":
                if recv[0] != "op": raise Untranslatable("apply on a non-operator")
                st = args[0]
                if st[0] != "state": raise Untranslatable("apply on a non-state")
                return ("state", st[1] + [("one", ("gate", recv, self.aslist(args[1]), self.aslist(args[2])))])
            if name == "map":
                f = args[0]
                lst = recv
                if lst[0] not in ("slist", "llit"): raise Untranslatable("map over a non-list")
                var = ("sym", "%m")
                if f[0] == "closure":
                    _, ps, body, cenv = f
                    env2 = dict(cenv); env2[ps[0]] = var
                    g = self.block(body, env2)
                elif f[0] == "fnpath":
                    ps, ret, body = self.gate_fns[f[1]]
                    g = self.run_fn(ps, P(body).block(), [var], None)
                else: raise Untranslatable("map argument")
                if g[0] != "gate": raise Untranslatable("map does not build a gate")
                return ("gates", [("each", lst, var, g)])
            if name in ("try_fold", "fold"):
                # xs.iter().try_fold(init, |acc, &x| body)  ==  the `for` loop threading acc through body, in list order
                lst, init, f = recv, args[0], args[1]
                if lst[0] not in ("slist", "llit"): raise Untranslatable("%s over a non-list" % name)
                if init[0] not in ("state", "builder") or f[0] != "closure" or len(f[1]) != 2:
                    raise Untranslatable("%s with an unsupported accumulator or closure" % name)
                _, ps, body, cenv = f
                var = ("sym", "%" + ps[1])
                env2 = dict(cenv); env2[ps[0]] = (init[0], []); env2[ps[1]] = var
                out = self.block(body, env2)
                if out is None or out[0] != init[0]: raise Untranslatable("%s body does not return the accumulator" % name)
                items = list(init[1])
                for it in out[1]:
                    if it[0] != "one": raise Untranslatable("nested loop")
                    items.append(("each", lst, var, it[1]))
                return (init[0], items)
            if name in ("add_gate", "add_gates") and recv[0] == "builder":
                g = args[0]
                items = [("one", g)] if g[0] == "gate" else (g[1] if g[0] == "gates" else None)
                if items is None: raise Untranslatable("add_gate of a non-gate")
                new = ("builder", recv[1] + items)
                self.rebind(e[1], new, env)
                return new
            if recv[0] == "builder" and name in self.builder_fns:
                ps, ret, body = self.builder_fns[name]
                out = self.run_fn(ps, P(body).block(), args, recv)
                self.rebind(e[1], out, env)
                return out
            raise Untranslatable("method %s" % name)
        raise Untranslatable("expression kind %s" % k)

    def rebind(self, target_expr, val, env):
        if target_expr[0] == "path" and len(target_expr[1]) == 1:
            env[target_expr[1][0]] = val

    def unwrap(self, v): return v
    def aslist(self, v):
        if v[0] in ("slist", "llit"): return v
        raise Untranslatable("expected a list of qubits, got %s" % (v[0],))

    # `.map(Gate::h_gate)`: a bare function path as the argument
    def ev_arg_fnpath(self, e):
        return None

def patch_fnpath(ev):
    """make `Gate::name` (a path, not a call) evaluate to a function reference"""
    orig = ev.ev
    def ev2(e, env):
        if e[0] == "path" and len(e[1]) == 2 and e[1][0] == "Gate" and e[1][1] in ev.gate_fns:
            return ("fnpath", e[1][1])
        return orig(e, env)
    ev.ev = ev2

# ---------------------------------------------------------------- surfaces
SCALAR_T = ("usize",)
LIST_T = ("&[usize]", "Vec<usize>")
FLOAT_T = ("f64",)
MAT_T = ("[[Complex<f64>;2];2]",)

def classify_params(params):
    """param list -> list of (name, kind) with kind in q / ql / f / mat, or None when the surface is outside C07"""
    out = []
    for n, t in params:
        if t in SCALAR_T: out.append((n, "q"))
        elif t in LIST_T: out.append((n, "ql"))
        elif t in FLOAT_T: out.append((n, "f"))
        elif t in MAT_T: out.append((n, "mat"))
        else: return None
    return out

def symval(n, kind):
    return ("slist", n) if kind == "ql" else ("sym", n)

def load(repo):
    src = lambda p: tokenize(open(os.path.join(repo, p)).read())
    st = src("src/components/state.rs"); gt = src("src/components/gate.rs"); ct = src("src/circuit.rs")
    lo, hi = find_impl(st, ["State"]); state_fns = functions(st, lo, hi)
    lo, hi = find_impl(gt, ["Gate"]); gate_fns = functions(gt, lo, hi)
    lo, hi = find_impl(ct, ["CircuitBuilder"]); builder_fns = functions(ct, lo, hi)
    # the chainable forms: trait ChainableState (declarations) and impl_chainable_state! { name(args) -> ret; ... }
    chain = {}
    for i in range(len(st) - 3):
        if st[i][1] == "impl_chainable_state" and st[i + 1][1] == "!" and st[i + 2][1] == "{":
            j = match_brace(st, i + 2)
            for item in split_top(st[i + 3:j], ";"):
                if not item: continue
                name = item[0][1]
                pe = match_brace(item, 1, "(", ")")
                ps = []
                for p in split_top(item[2:pe]):
                    txt = [t[1] for t in p]
                    ps.append((txt[0], "".join(txt[2:])))
                chain[name] = ps
    # the macro that generates the chainable impl: its body must be the plain forwarding form
    chain_fwd = None
    for i in range(len(st) - 2):
        if st[i][1] == "macro_rules" and st[i + 2][1] == "impl_chainable_state":
            j = match_brace(st, i + 3)
            chain_fwd = " ".join(t[1] for t in st[i + 3:j + 1])
    return state_fns, gate_fns, builder_fns, chain, chain_fwd

def translate(repo):
    """returns (entries, problems). entry: dict(surface, name, params [(name, kind)], items | None, fallible)"""
    state_fns, gate_fns, builder_fns, chain, chain_fwd = load(repo)
    ev = Ev(gate_fns, builder_fns); patch_fnpath(ev)
    entries, problems = [], []
    def norm(v, surface):
        if v is None: raise Untranslatable("no result")
        if v[0] in ("state", "builder"): return v[1]
        if v[0] == "gate": return [("one", v)]
        if v[0] == "gates": return v[1]
        raise Untranslatable("result is %s" % v[0])
    SKIP_STATE = {"operate"}
    for name, (params, ret, body) in state_fns.items():
        if not ret.startswith("Result<Self") and not ret.startswith("Result<State"): continue
        cp = classify_params(params)
        if cp is None or name in SKIP_STATE or not any(k in ("q", "ql") for _, k in cp) or not SELF.get((id(state_fns), name)): continue
        if not PUB.get((id(state_fns), name)): continue     # private helpers are not surfaces (they are inlined where called)
        try:
            v = ev.run_fn(params, P(body).block(), [symval(n, k) for n, k in cp], ("state", []))
            entries.append(dict(surface="state", name=name, params=cp, items=norm(v, "state"), types=[t for _, t in params], ret=ret))
        except Untranslatable as ex:
            entries.append(dict(surface="state", name=name, params=cp, items=None, types=[t for _, t in params], ret=ret)); problems.append("State::%s: %s" % (name, ex))
    # chainable forms forward to the State method of the same name with the same arguments (checked on the macro text)
    fwd_ok = chain_fwd is not None and "self . and_then ( | state | state . $method ( $ ( $arg ) , * ) )" in chain_fwd
    if not fwd_ok: problems.append("impl_chainable_state! is not the plain forwarding form")
    for name, params in chain.items():
        cp = classify_params(params)
        if cp is None or name in SKIP_STATE or not any(k in ("q", "ql") for _, k in cp): continue
        base = next((e for e in entries if e["surface"] == "state" and e["name"] == name), None)
        if base is None or [k for _, k in base["params"]] != [k for _, k in cp]:
            problems.append("chainable %s has no State method of the same signature" % name)
            entries.append(dict(surface="chain", name=name, params=cp, items=None, types=[t for _, t in params], ret="")); continue
        items = base["items"] if fwd_ok else None
        if items is not None and [n for n, _ in base["params"]] != [n for n, _ in cp]:
            ren = {a: b for (a, _), (b, _) in zip(base["params"], cp)}
            items = rename_items(items, ren)
        entries.append(dict(surface="chain", name=name, params=cp, items=items, types=[t for _, t in params], ret=""))
    for name, (params, ret, body) in gate_fns.items():
        if body is None or ret not in ("Self", "Vec<Self>", "Result<Self,Error>", "Result<Vec<Self>,Error>"): continue
        cp = classify_params(params)
        if cp is None or not cp or not PUB.get((id(gate_fns), name)): continue
        try:
            v = ev.run_fn(params, P(body).block(), [symval(n, k) for n, k in cp], None)
            entries.append(dict(surface="gate", name=name, params=cp, items=norm(v, "gate"), types=[t for _, t in params], ret=ret))
        except Untranslatable as ex:
            entries.append(dict(surface="gate", name=name, params=cp, items=None, types=[t for _, t in params], ret=ret)); problems.append("Gate::%s: %s" % (name, ex))
    for name, (params, ret, body) in builder_fns.items():
        if ret not in ("&mutSelf", "Result<&mutSelf,Error>"): continue
        cp = classify_params(params)
        if cp is None or not cp or not PUB.get((id(builder_fns), name)): continue
        try:
            v = ev.run_fn(params, P(body).block(), [symval(n, k) for n, k in cp], ("builder", []))
            entries.append(dict(surface="builder", name=name, params=cp, items=norm(v, "builder"), fallible=ret.startswith("Result"), types=[t for _, t in params], ret=ret))
        except Untranslatable as ex:
            entries.append(dict(surface="builder", name=name, params=cp, items=None, fallible=ret.startswith("Result"), types=[t for _, t in params], ret=ret)); problems.append("CircuitBuilder::%s: %s" % (name, ex))
    # macro arms
    arms, mproblems, docs = macro_arms(repo)
    problems += mproblems
    bmap = {e["name"]: e for e in entries if e["surface"] == "builder"}
    for arm in arms:
        b = bmap.get(arm["method"])
        if b is None:
            if arm["method"] in builder_fns and classify_params(builder_fns[arm["method"]][0]) is None:
                continue                                    # measurement / Pauli-string arms: outside C07
            problems.append("macro arm %s calls unknown builder method %s" % (arm["text"], arm["method"]))
            continue
        if len(arm["args"]) != len(b["params"]):
            problems.append("macro arm %s passes %d arguments to %s" % (arm["text"], len(arm["args"]), arm["method"])); continue
        items = None
        if b["items"] is not None:
            sub = {}
            for (pn, kind), a in zip(b["params"], arm["args"]):
                sub[pn] = a
            if arm.get("repeat"):
                # one call per element of the list parameter that is passed (bare) to the repeated call
                lists = [n for n, k in arm["params"] if k == "ql" and ("sym", n) in arm["args"]]
                if len(lists) != 1:
                    problems.append("macro arm %s: repeated call does not range over exactly one list argument" % arm["text"]); continue
                var = ("sym", "%" + lists[0])
                for pn in sub:
                    if sub[pn] == ("sym", lists[0]): sub[pn] = var
                try:
                    one = subst_items(b["items"], sub)
                    if any(it[0] != "one" for it in one): raise Untranslatable("repeated call of a method that loops itself")
                    items = [("each", ("slist", lists[0]), var, it[1]) for it in one]
                except Untranslatable as ex:
                    problems.append("macro arm %s: %s" % (arm["text"], ex)); items = None
            else:
                items = subst_items(b["items"], sub)
        entries.append(dict(surface="macro", name=arm["name"], params=arm["params"], items=items, arm=arm))
    return entries, problems, docs

def rename_items(items, ren):
    return subst_items(items, {a: (("slist", b) if False else None) for a, b in ren.items()}, ren)

def subst_items(items, sub, ren=None):
    def sv(v):
        if v[0] == "sym":
            if ren and v[1] in ren: return ("sym", ren[v[1]])
            if v[1] in sub and sub[v[1]] is not None: return sub[v[1]]
            return v
        if v[0] == "slist":
            if ren and v[1] in ren: return ("slist", ren[v[1]])
            if v[1] in sub and sub[v[1]] is not None: return sub[v[1]]
            return v
        if v[0] == "llit": return ("llit", [sv(x) for x in v[1]])
        if v[0] == "op": return ("op", v[1], [sv(x) for x in v[2]])
        if v[0] == "gate": return ("gate", sv(v[1]), sv(v[2]), sv(v[3]))
        raise Untranslatable("subst %s" % v[0])
    out = []
    for it in items:
        if it[0] == "one": out.append(("one", sv(it[1])))
        else: out.append(("each", sv(it[1]), it[2], sv(it[3])))
    return out

ARM = re.compile(r"^\(\s*\$builder:ident,\s*(\w+)\((.*)\)(,\s*\$\(\$rest:tt\)\*)?\s*\)\s*=>\s*\{\s*\$builder\.(\w+)\((.*?)\)(\.unwrap\(\))?;\s*(\$crate::circuit_internal!\(\$builder, \$\(\$rest\)\*\);)?\s*\};$")

# an arm whose body repeats one builder call per element of a list argument:  $($builder.method(.., $xs, ..);)*
ARM_REP = re.compile(r"^\(\s*\$builder:ident,\s*(\w+)\((.*)\)(,\s*\$\(\$rest:tt\)\*)?\s*\)\s*=>\s*\{\s*\$\(\s*\$builder\.(\w+)\((.*?)\)(\.unwrap\(\))?;\s*\)\*\s*(\$crate::circuit_internal!\(\$builder, \$\(\$rest\)\*\);)?\s*\};$")

def macro_arms(repo):
    text = open(os.path.join(repo, "src/macros.rs")).read()
    arms, problems = [], []
    start = text.index("macro_rules! circuit_internal")
    for line in text[start:].splitlines():
        l = line.strip()
        if not l.startswith("($builder:ident, ") or l.startswith("($builder:ident,) ") or "$bad_token" in l: continue
        m = ARM.match(l)
        repeat = False
        if not m:
            m = ARM_REP.match(l); repeat = True
        if not m:
            problems.append("macro arm not understood: %s" % l[:80]); continue
        name, pat, trailing, method, args, unwrap, rec = m.groups()
        if bool(trailing) != bool(rec):
            problems.append("macro arm %s: recursion does not match the trailing-comma form" % name)
        # pattern: comma separated  [$($xs:expr),*]  |  $x:expr
        params = []
        for p in split_pat(pat):
            p = p.strip()
            ml = re.match(r"^\[\$\(\$(\w+):expr\),\*\]$", p)
            ms = re.match(r"^\$(\w+):expr$", p)
            if ml: params.append((ml.group(1), "ql"))
            elif ms: params.append((ms.group(1), "s"))
            else: problems.append("macro pattern not understood: %s" % p); params = None; break
        if params is None: continue
        avals = []
        for a in split_pat(args):
            a = a.strip()
            ml = re.match(r"^vec!\[\$\(\$(\w+)\),\*\]$", a)
            m1 = re.match(r"^vec!\[\$(\w+)\]$", a)
            ms = re.match(r"^\$(\w+)$", a)
            if ml: avals.append(("slist", ml.group(1)))
            elif m1: avals.append(("llit", [("sym", m1.group(1))]))
            elif ms: avals.append(("sym", ms.group(1)))
            else: avals.append(("other", a))
        arms.append(dict(name=name, params=params, method=method, args=avals, trailing=bool(trailing), text="%s(%s)" % (name, pat), repeat=repeat))
    # the rustdoc bullet list of forms: - `name(arg, arg)` or `name([args], [args])`
    docs = {}
    for m in re.finditer(r"^///\s*-\s*(.*)$", text[:start], re.M):
        for f in re.finditer(r"`(\w+)\(([^`]*)\)`", m.group(1)):
            docs.setdefault(f.group(1), []).append([x.strip() for x in split_pat(f.group(2))])
    return arms, problems, docs

def split_pat(s):
    parts, cur, depth = [], "", 0
    for ch in s:
        if ch in "([": depth += 1
        elif ch in ")]": depth -= 1
        if ch == "," and depth == 0:
            parts.append(cur); cur = ""
        else: cur += ch
    if cur.strip(): parts.append(cur)
    return parts

# ---------------------------------------------------------------- documented roles (read from names and the macro rustdoc)
FAMILY_OP = {"h": "H", "x": "X", "y": "Y", "z": "Z", "id": "I", "s": "S", "t": "T", "sdag": "Sdag", "tdag": "Tdag",
             "p": "P", "rx": "RX", "ry": "RY", "rz": "RZ", "unitary": "U2", "ry_phase": "RYP", "ry_phase_dag": "RYPdag"}
ALIAS = {"i": "id", "s_dag": "sdag", "t_dag": "tdag", "unitary2": "unitary"}
SPECIAL = {  # surface name -> operator
    "state": {"cnot": "CNOT", "swap": "SWAP", "cswap": "SWAP", "toffoli": "Toffoli", "matchgate": "Match", "cmatchgate": "Match"},
    "gate": {"cnot_gate": "CNOT", "swap_gate": "SWAP", "swap_controlled_gate": "SWAP", "toffoli_gate": "Toffoli", "matchgate": "Match", "controlled_matchgate": "Match"},
    "builder": {"cnot_gate": "CNOT", "swap_gate": "SWAP", "cswap_gate": "SWAP", "toffoli_gate": "Toffoli", "matchgate": "Match", "cmatchgate": "Match"},
    "macro": {"cnot": "CNOT", "swap": "SWAP", "cswap": "SWAP", "toffoli": "Toffoli", "matchgate": "Match", "cmatchgate": "Match"},
}
SPECIAL["chain"] = SPECIAL["state"]

def fam(n):
    n = ALIAS.get(n, n)
    return n if n in FAMILY_OP else None

def family_form(surface, name, params):
    """-> (operator name, form) or None"""
    if name in SPECIAL[surface]: return SPECIAL[surface][name], "FSpecial"
    if surface in ("state", "chain"):
        for suf in ("_multi", "_gates"):
            if name.endswith(suf):
                base = name[:-len(suf)]
                if base.startswith("c") and fam(base[1:]): return FAMILY_OP[fam(base[1:])], "FCtrl"
                if fam(base): return FAMILY_OP[fam(base)], "FMulti"
        if fam(name): return FAMILY_OP[fam(name)], "FSingle"
    elif surface == "gate":
        for suf, form in (("_controlled_gates", "FCtrl"), ("_multi_gate", "FMulti"), ("_gate", "FSingle")):
            if name.endswith(suf) and fam(name[:-len(suf)]): return FAMILY_OP[fam(name[:-len(suf)])], form
    elif surface == "builder":
        if name.endswith("_gates"):
            base = name[:-6]
            if base.startswith("c") and fam(base[1:]): return FAMILY_OP[fam(base[1:])], "FCtrl"
            if fam(base): return FAMILY_OP[fam(base)], "FMulti"
        if name.endswith("_gate") and fam(name[:-5]): return FAMILY_OP[fam(name[:-5])], "FSingle"
    elif surface == "macro":
        if name.startswith("c") and fam(name[1:]): return FAMILY_OP[fam(name[1:])], "FCtrl"
        if fam(name): return FAMILY_OP[fam(name)], ("FMulti" if params and params[0][1] == "ql" else "FSingle")
    return None

ROLE_RE = [
    (r"^(index|qubit|qubit_index|target|target_index|target_qubit)$", "target"),
    (r"^(qubit1|qubit1_index|target1|target_qubit1)$", "target1"),
    (r"^(qubit2|qubit2_index|target2|target_qubit2)$", "target2"),
    (r"^(qubits|qubit_indices|targets|target_qubits|target_indices)$", "targets"),
    (r"^(control|control_index|control_qubit)$", "control"),
    (r"^(controls|control_qubits|control_indices)$", "controls"),
    (r"^(control1|control_qubit1)$", "control1"),
    (r"^(control2|control_qubit2)$", "control2"),
]
PARAM_ROLES = {  # operator -> parameter names in constructor order
    "P": [["angle"]], "RX": [["angle"]], "RY": [["angle"]], "RZ": [["angle"]], "U2": [["unitary", "matrix"]],
    "RYP": [["angle", "theta"], ["phase", "phi"]], "RYPdag": [["angle", "theta"], ["phase", "phi"]],
    "Match": [["theta"], ["phi1"], ["phi2"]],
}

def roles_of(entry, op, docs):
    """[(param, role, is_list)] or raises Untranslatable when a parameter's documented role cannot be read"""
    out = []
    names = [n for n, _ in entry["params"]]
    doc_pos = None
    if entry["surface"] == "macro" and any(re.match(r"^arg\d+$", n) for n in names):
        forms = [f for f in docs.get(entry["name"], []) if len(f) == len(names)]
        if len(forms) != 1: raise Untranslatable("no unique documented form for macro %s" % entry["name"])
        doc_pos = forms[0]
    for i, (n, kind) in enumerate(entry["params"]):
        rn = n
        if doc_pos is not None and re.match(r"^arg\d+$", n): rn = doc_pos[i]
        if op == "Match" and rn == "target1": rn = "target"
        role = None
        if kind in ("q", "ql", "s") or (kind == "s"):
            for pat, r in ROLE_RE:
                if re.match(pat, rn): role = r
        if role is None:
            for k, alts in enumerate(PARAM_ROLES.get(op, [])):
                if rn in alts: role = "param%d" % k
        if role is None: raise Untranslatable("parameter %s of %s %s has no documented role" % (n, entry["surface"], entry["name"]))
        is_list = (kind == "ql")
        if is_list and role in ("target", "control"): role += "s"
        out.append((n, role, is_list))
    return out

FIELD_ORDER = {"Match": ["theta", "phi1", "phi2"]}

def cq_str(s): return '"%s"' % s
def cq_lx(v, loopvar=None):
    if v[0] == "slist": return "(LVar %s)" % cq_str(v[1])
    if v[0] == "llit":
        for x in v[1]:
            if x[0] != "sym" or x[1].startswith("%"): raise Untranslatable("list literal of non-parameters")
        return "(LLit [%s])" % "; ".join(cq_str(x[1]) for x in v[1])
    raise Untranslatable("list expression %s" % v[0])
def cq_op(o):
    for a in o[2]:
        if a[0] != "sym" or a[1].startswith("%"): raise Untranslatable("operator argument is not a parameter")
    return "(mkOp %s [%s])" % (cq_str(o[1]), "; ".join(cq_str(a[1]) for a in o[2]))
def cq_item(it):
    if it[0] == "one":
        g = it[1]
        return "One %s %s %s" % (cq_op(g[1]), cq_lx(g[2]), cq_lx(g[3]))
    _, lst, var, g = it
    if g[2] != ("llit", [var]): raise Untranslatable("loop body does not target exactly the loop variable")
    return "Each %s %s %s" % (cq_lx(lst), cq_op(g[1]), cq_lx(g[3]))

def emit_coq(entries, docs, path):
    lines = ["(* GENERATED by vlib/wiring.py from /repo's src/components/state.rs, src/components/gate.rs, src/circuit.rs, src/macros.rs.",
             "   Do not edit: regenerated on every run of the C07 check. *)",
             "From Coq Require Import List String.", "From QI Require Import Spec.Wiring.", "Import ListNotations.", "Open Scope string_scope.", "",
             "Definition wiring_table : list entry := ["]
    rows, notes = [], []
    for e in entries:
        ff = family_form(e["surface"], e["name"], e["params"])
        if ff is None:
            notes.append("%s %s: no documented family for this name" % (e["surface"], e["name"]))
            rows.append('  mkEntry %s %s "?" FSpecial [] false []' % (cq_str(e["surface"]), cq_str(e["name"]))); e["family"] = None; continue
        op, form = ff
        e["family"], e["form"] = op, form
        try:
            roles = roles_of(e, op, docs)
        except Untranslatable as ex:
            notes.append(str(ex)); roles = None
        e["roles"] = roles
        body, ok = "[]", False
        if e["items"] is not None and roles is not None:
            try:
                body = "[%s]" % "; ".join(cq_item(it) for it in e["items"]); ok = True
            except Untranslatable as ex:
                notes.append("%s %s: %s" % (e["surface"], e["name"], ex))
        rl = "[%s]" % "; ".join("(%s, %s, %s)" % (cq_str(n), cq_str(r), "true" if l else "false") for n, r, l in (roles or []))
        rows.append("  mkEntry %s %s %s %s %s %s %s" % (cq_str(e["surface"]), cq_str(e["name"]), cq_str(op), form, rl, "true" if ok else "false", body))
    lines.append(";\n".join(rows)); lines.append("].")
    text = "\n".join(lines) + "\n"
    old = open(path).read() if os.path.exists(path) else None
    if old != text:
        open(path, "w").write(text)
    return notes

# ---------------------------------------------------------------- executing every surface: generated Rust
NPROBE = 6
ROLE_VAL = {"target": 1, "targets": [3, 0], "control": 4, "controls": [5, 4], "control1": 5, "control2": 4, "target1": 1, "target2": 3}
# probe angles lie beyond one turn (an odd number of 2*pi wraps), so that a wrong period shows
OP_PARAMS = {"P": ["7.3"], "RX": ["7.3"], "RY": ["7.3"], "RZ": ["7.3"], "U2": ["UMAT"], "RYP": ["6.9", "-3.7"], "RYPdag": ["6.9", "-3.7"],
             "Match": ["6.9", "0.4", "-4.1"]}
OP_CTOR = {"H": "Hadamard", "X": "Pauli::X", "Y": "Pauli::Y", "Z": "Pauli::Z", "I": "Identity", "S": "PhaseS", "T": "PhaseT", "Sdag": "PhaseSdag",
           "Tdag": "PhaseTdag", "P": "PhaseShift::new(7.3)", "RX": "RotateX::new(7.3)", "RY": "RotateY::new(7.3)", "RZ": "RotateZ::new(7.3)",
           "U2": "Unitary2::new(UMAT).unwrap()", "RYP": "Unitary2::from_ry_phase(6.9, -3.7)", "RYPdag": "Unitary2::from_ry_phase_dagger(6.9, -3.7)",
           "CNOT": "CNOT", "SWAP": "SWAP", "Toffoli": "Toffoli", "Match": "Matchgate::new(6.9, 0.4, -4.1)"}

# probe variants for the list-of-targets forms: 0 = distinct qubits, 1 = a qubit listed twice (the single-target gate is applied
# once per LISTED qubit, in order), 2 = the empty list (nothing is applied)
VARIANT_TARGETS = {1: [3, 0, 3], 2: []}
# variants 3 and 4: special parameter values (an angle that is exactly 0: wrappers with a shortcut for a special value must still agree)
VARIANT_PARAMS = {3: {"P": ["0.0"], "RX": ["0.0"], "RY": ["0.0"], "RZ": ["0.0"], "RYP": ["0.0", "-3.7"], "RYPdag": ["0.0", "-3.7"], "Match": ["0.0", "0.4", "-4.1"]},
                  4: {"RYP": ["6.9", "0.0"], "RYPdag": ["6.9", "0.0"], "Match": ["6.9", "0.0", "-4.1"]}}
def param_variants(e):
    if not any(role.startswith("param") for _, role, _ in e["roles"]): return []
    return [v for v in (3, 4) if e.get("family") in VARIANT_PARAMS[v]]
def oracle_key(op, variant):
    return "%s#%d" % (op, variant) if variant in VARIANT_PARAMS and op in VARIANT_PARAMS[variant] else op
def params_of(op, variant):
    return VARIANT_PARAMS.get(variant, {}).get(op) or OP_PARAMS[op]
LAST_VARIANTS = []
def has_variants(e):
    return e.get("form") in ("FMulti", "FCtrl") and e.get("family") != "SWAP" and any(role == "targets" and is_list for _, role, is_list in e["roles"])

def role_value(role, op, variant=0):
    if role == "targets" and op != "SWAP" and variant in VARIANT_TARGETS: return VARIANT_TARGETS[variant]
    if role == "targets" and op == "SWAP": return [1, 3]
    if role.startswith("param"): return params_of(op, variant)[int(role[5:])]
    return ROLE_VAL[role]

def expected_calls(e, variant=0):
    """the documented-role reading on the probe values: list of (op, targets, controls)"""
    rv = {}
    for n, role, is_list in e["roles"]:
        rv.setdefault(role, []).append(role_value(role, e["family"], variant))
    def one(r): return rv[r][0] if r in rv else None
    ts = one("targets") if "targets" in rv else [x for r in ("target", "target1", "target2") if r in rv for x in rv[r]]
    cs = one("controls") if "controls" in rv else [x for r in ("control", "control1", "control2") if r in rv for x in rv[r]]
    extra = [("X", [0], [])] if e.get("surface") == "macro" and e["arm"]["trailing"] else []     # the gate written after a non-final arm
    if e["form"] in ("FMulti", "FCtrl"):
        return [(e["family"], [t], cs) for t in ts] + extra
    return [(e["family"], ts, cs)] + extra

def rust_arg(value, kind, typ):
    if kind == "ql":
        body = ", ".join(str(x) for x in value)
        if typ is None: return "[%s]" % body                       # macro list syntax
        return "&[%s]" % body if typ.startswith("&") else "vec![%s]" % body
    return str(value)

def gen_rust(entries):
    """Rust source of the surfaces binary; returns (source, plan) where plan[i] = (entry index, label)"""
    calls = []
    plan = []
    del LAST_VARIANTS[:]
    work = []
    for idx, e in enumerate(entries):
        if e.get("family") is None or e.get("roles") is None: continue
        work.append((idx, 0))
        if has_variants(e): work += [(idx, 1), (idx, 2)]
        work += [(idx, v) for v in param_variants(e)]
    for idx, variant in work:
        e = entries[idx]
        vals = [role_value(role, e["family"], variant) for _, role, _ in e["roles"]]
        types = e.get("types") or [None] * len(vals)
        args = ", ".join(rust_arg(v, k, t) for v, (_, k), t in zip(vals, e["params"], types))
        i = len(plan)
        plan.append(idx); LAST_VARIANTS.append(variant)
        s, name = e["surface"], e["name"]
        if s == "state":
            calls.append("    emit_state(%d, p, st.%s(%s));" % (i, name, args))
        elif s == "chain":
            calls.append("    emit_state(%d, p, Ok::<State, Error>(st.clone()).%s(%s));" % (i, name, args))
        elif s == "gate":
            ret = e["ret"]
            call = "Gate::%s(%s)" % (name, args)
            if ret == "Self": call = "Ok::<Vec<Gate>, Error>(vec![%s])" % call
            elif ret == "Vec<Self>": call = "Ok::<Vec<Gate>, Error>(%s)" % call
            elif ret == "Result<Self,Error>": call = "%s.map(|g| vec![g])" % call
            calls.append("    emit_gates(%d, p, &st, %s);" % (i, call))
        elif s == "builder":
            if e.get("fallible"):
                calls.append("    { let mut b = CircuitBuilder::new(N); let r = b.%s(%s).map(|_| ()); emit_builder(%d, p, &st, r, &mut b); }" % (name, args, i))
            else:
                calls.append("    { let mut b = CircuitBuilder::new(N); b.%s(%s); emit_builder(%d, p, &st, Ok(()), &mut b); }" % (name, args, i))
        elif s == "macro":
            # every argument expression is written as ev(..), which counts its evaluations: a macro form evaluates what it is given once
            margs = ", ".join(("[%s]" % ", ".join("ev(%s)" % x for x in v)) if k == "ql" else "ev(%s)" % v for v, (_, k) in zip(vals, e["params"]))
            inv = "%s(%s)%s" % (name, margs, ", x(0)" if e["arm"]["trailing"] else "")          # a non-final arm must go on to the rest
            calls.append("    { reset_evals(); let c = circuit!(qubits: N, %s); emit_macro(%d, p, &st, c); }" % (inv, i))
    # operate: every operator, plain and with the controls of the controlled forms
    oper = []
    for op, ctor in OP_CTOR.items():
        if op == "SWAP": forms = [([1, 3], []), ([1, 3], [5, 4])]
        elif op == "CNOT": forms = [([1], [4])]
        elif op == "Toffoli": forms = [([1], [5, 4])]
        else: forms = [([1], []), ([1], [5, 4])]
        for ts, cs in forms:
            for chain in (False, True):
                i = len(plan) + len(oper)
                recv = "Ok::<State, Error>(st.clone())" if chain else "st"
                calls.append("    emit_state(%d, p, %s.operate(%s, &[%s], &[%s]));" % (i, recv, ctor, ", ".join(map(str, ts)), ", ".join(map(str, cs))))
                oper.append(dict(op=op, ts=ts, cs=cs, chain=chain))
    vo = []
    for v, ops in sorted(VARIANT_PARAMS.items()):
        for op, ps in sorted(ops.items()):
            x = [float(t) for t in ps]
            if op == "P": ex = "cs(%r)" % x[0]
            elif op in ("RX", "RY", "RZ"): ex = "cs(%r / 2.0)" % x[0]
            elif op == "RYP": ex = "{ let mut o = cs(%r / 2.0); o.extend(cs(%r)); o }" % (x[0], x[1])
            elif op == "RYPdag": ex = "{ let mut o = cs(%r / 2.0); o.extend(cs(-(%r))); o }" % (x[0], x[1])
            else: ex = "{ let mut o = cs(%r / 2.0); o.extend(cs(%r)); o.extend(cs(%r)); o }" % (x[0], x[1], x[2])
            vo.append('    orc.insert("%s#%d".to_string(), serde_json::to_value(&(%s)).unwrap());' % (op, v, ex))
    src = RUST_HEAD.replace("@N@", str(NPROBE)).replace("@VARIANT_ORACLES@", "\n".join(vo)) + "\n".join(calls) + RUST_TAIL
    return src, plan, oper

RUST_HEAD = r'''// GENERATED by /verif/vlib/wiring.py: calls every gate surface of quant-iron on probe states. Do not edit.
#![allow(unused_imports, unused_mut)]
use num_complex::Complex;
use quant_iron::*;
use quant_iron::circuit::{Circuit, CircuitBuilder};
use quant_iron::components::gate::Gate;
use quant_iron::components::state::ChainableState;
use quant_iron::errors::Error;
use serde_json::{json, Value};
use std::io::BufRead;

const N: usize = @N@;
const UMAT: [[Complex<f64>; 2]; 2] = [[Complex::new(0.6, 0.0), Complex::new(0.0, 0.8)], [Complex::new(0.0, 0.8), Complex::new(0.6, 0.0)]];

fn hexf(x: f64) -> String { format!("{:016x}", x.to_bits()) }
fn vjson(v: &[Complex<f64>]) -> Value { Value::Array(v.iter().flat_map(|c| [Value::String(hexf(c.re)), Value::String(hexf(c.im))]).collect()) }
fn emit_state(i: usize, p: usize, r: Result<State, Error>) {
    match r { Ok(s) => println!("{}", json!({"i": i, "p": p, "r": "ok", "v": vjson(&s.state_vector)})),
              Err(e) => println!("{}", json!({"i": i, "p": p, "r": "err", "e": format!("{:?}", e)})) }
}
fn emit_circuit(i: usize, p: usize, st: &State, c: Result<Circuit, Error>) {
    emit_state(i, p, c.and_then(|c| c.execute(st)));
}
thread_local! { static EVALS: std::cell::Cell<usize> = std::cell::Cell::new(0); }
fn ev<T>(x: T) -> T { EVALS.with(|c| c.set(c.get() + 1)); x }
fn reset_evals() { EVALS.with(|c| c.set(0)); }
fn emit_macro(i: usize, p: usize, st: &State, c: Result<Circuit, Error>) {
    let evals = EVALS.with(|c| c.get());
    match c.and_then(|c| c.execute(st)) {
        Ok(s) => println!("{}", json!({"i": i, "p": p, "r": "ok", "v": vjson(&s.state_vector), "evals": evals})),
        Err(e) => println!("{}", json!({"i": i, "p": p, "r": "err", "e": format!("{:?}", e), "evals": evals})) }
}
fn emit_gates(i: usize, p: usize, st: &State, g: Result<Vec<Gate>, Error>) {
    emit_circuit(i, p, st, g.and_then(|gs| Circuit::with_gates(gs, N)));
}
fn emit_builder(i: usize, p: usize, st: &State, r: Result<(), Error>, b: &mut CircuitBuilder) {
    match r { Ok(()) => emit_circuit(i, p, st, b.build_final()), Err(e) => emit_state(i, p, Err(e)) }
}
fn cs(x: f64) -> Vec<String> { vec![hexf(x.cos()), hexf(x.sin())] }

fn main() {
    let mut line = String::new();
    std::io::stdin().lock().read_line(&mut line).unwrap();
    let inp: Value = serde_json::from_str(&line).unwrap();
    // libm values the model needs, computed here exactly as the operators compute them
    let mut ryp = cs(6.9 / 2.0); ryp.extend(cs(-3.7));
    let mut rypd = cs(6.9 / 2.0); rypd.extend(cs(3.7));
    let mut mt = cs(6.9 / 2.0); mt.extend(cs(0.4)); mt.extend(cs(-4.1));
    let u: Vec<String> = UMAT.iter().flat_map(|r| r.iter().flat_map(|c| [hexf(c.re), hexf(c.im)])).collect();
    let mut orc = serde_json::Map::new();
    for (k, v) in [("P", cs(7.3)), ("RX", cs(7.3 / 2.0)), ("RY", cs(7.3 / 2.0)), ("RZ", cs(7.3 / 2.0)), ("U2", u), ("RYP", ryp), ("RYPdag", rypd), ("Match", mt)] { orc.insert(k.to_string(), json!(v)); }
@VARIANT_ORACLES@
    println!("{}", json!({"oracles": orc}));
    for (p, pv) in inp["probes"].as_array().unwrap().iter().enumerate() {
        let flat: Vec<f64> = pv.as_array().unwrap().iter().map(|h| f64::from_bits(u64::from_str_radix(h.as_str().unwrap(), 16).unwrap())).collect();
        let st = State { state_vector: flat.chunks(2).map(|c| Complex::new(c[0], c[1])).collect(), num_qubits: N };
        run_all(p, st);
    }
}

fn run_all(p: usize, st: State) {
'''
RUST_TAIL = "\n}\n"
