"""Circuits for the export properties (C13 C14 C18) and helpers to hand exported text to Coq."""
import math
from .common import *
from .gatecases import *
from .paulicases import rand_string
from .props.c04 import rand_gate
from .props.c02 import exact_unitaries

EXPORTABLE = [k for k in KINDS if k != "Match"]
QASM_IMPORTS = "From Coq Require Import String Ascii.\nFrom QI Require Import Spec.QasmLex Spec.QasmGrammar."

def cq_string(s):
    return '"' + s.replace('"', '""') + '"%string'

def exportable_gate(rng, n, us, allow=("op", "meas", "pauli")):
    r = rng.random()
    if "meas" in allow and r < 0.18:
        qs = rng.sample(range(n), rng.randrange(0, n + 1))
        b = rng.choice(["C", "C", "X", "Y", "U"])
        d = {"g": "meas", "basis": b, "qs": qs}
        if b == "U": d["u"] = rng.choice(us)
        return d
    if "pauli" in allow and r < 0.28:
        return {"g": "pauli", "term": rand_string(rng, n, allow_empty=False)}
    g = rand_gate(rng, n, EXPORTABLE)
    if g["cs"] and g["kind"] not in ("CNOT", "Toffoli") and rng.random() < 0.08:       # a control listed twice (same control)
        g = dict(g, cs=g["cs"] + [rng.choice(g["cs"])])
    return dict(g, g="op")

def rand_circuit(rng, n, length, us, allow=("op", "meas", "pauli")):
    return [exportable_gate(rng, n, us, allow) for _ in range(length)]

PARAM_SWEEP = [0.0, -0.0, 1e-7, 5e-324, 1e22, 1.7976931348623157e308, -2.5, math.pi, 1.0 / 3.0, 123456.789, float("nan"), float("inf"), float("-inf")]

# ---------------------------------------------------------------- token-level export model inputs
import re
from decimal import Decimal

def rust_display(x):
    """Rust's `{}` for a finite f64: shortest round-trip digits, never an exponent, integers without a fraction"""
    if x != x or x in (float("inf"), float("-inf")): return None
    r = repr(float(x))
    neg = r.startswith("-")
    d = format(Decimal(r.lstrip("-")), "f")
    if "." in d:
        d = d.rstrip("0").rstrip(".") if d.split(".")[1].strip("0") == "" else d
    return ("-" if neg else "") + d

def cq_lit(text):
    neg = text.startswith("-")
    body = text.lstrip("-")
    if "." in body or "e" in body.lower():
        return '(LFloat %s "%s"%%string)' % (cqbool(neg), body)
    return "(LInt %s %s)" % (cqbool(neg), cqN(int(body)))

NAME = {"H": "h", "X": "x", "Y": "y", "Z": "z", "S": "s", "T": "t", "Sdag": "sdg", "Tdag": "tdg", "I": "id", "P": "p", "RX": "rx", "RY": "ry", "RZ": "rz",
        "CNOT": "x", "Toffoli": "x", "SWAP": "swap"}

def strip_comments(text):
    return "\n".join(l.split("//")[0] for l in text.splitlines())

def u_literals(text):
    """the three parameter literals of every U(...) statement of the exported text, in order"""
    out = []
    for line in strip_comments(text).splitlines():
        m = re.match(r"^\s*(?:ctrl\(\d+\) @ )?U\(([^)]*)\)", line)
        if m: out.append([t.strip() for t in m.group(1).split(",")])
    return out

def build_instrs(n, gates, text):
    """the lowered instruction list the exporter must emit for this circuit (Gallina term), U parameters taken from the text"""
    us = u_literals(text)
    ui = [0]
    def next_u():
        k = ui[0]; ui[0] += 1
        return us[k] if k < len(us) else ["0", "0", "0"]
    def lits(xs): return "[" + ";".join(cq_lit(t) for t in xs) + "]"
    out = []
    def dedup(cs):
        seen = []
        for c in cs:
            if c not in seen: seen.append(c)
        return seen
    for g in gates:
        if g["g"] == "op":
            g = dict(g, cs=dedup(g["cs"]))          # the exporter lists a repeated control once
            k = g["kind"]
            if k in ("U2", "RYP", "RYPdag"):
                out.append('IGate "U"%%string %s %s %s' % (lits(next_u()), cqNs(g["ts"]), cqNs(g["cs"])))
            elif k == "CNOT":
                out.append('IGate "x"%%string [] %s %s' % (cqNs(g["ts"]), cqNs(g["cs"][:1])))
            elif k in ("P", "RX", "RY", "RZ"):
                out.append('IGate "%s"%%string %s %s %s' % (NAME[k], lits([rust_display(bits2float(g["params"][0]))]), cqNs(g["ts"]), cqNs(g["cs"])))
            else:
                out.append('IGate "%s"%%string [] %s %s' % (NAME[k], cqNs(g["ts"]), cqNs(g["cs"])))
        elif g["g"] == "meas":
            qs = g["qs"] or list(range(n))
            if g["basis"] == "U":
                u = next_u()
                # per listed qubit the text has U, measure, U^dagger: the literals of the first pair are used for all (same matrix)
                ud = next_u()
                for _ in range(2 * (len(qs) - 1)): next_u()
                out.append("IMeasCustom %s %s %s" % (lits(u), lits(ud), cqNs(qs)))
            else:
                out.append('IMeas "%s"%%string %s' % ({"C": "measure", "X": "xmeasure", "Y": "ymeasure"}[g["basis"]], cqNs(qs)))
        elif g["g"] == "pauli":
            for q, p in sorted(g["term"]["ops"]):
                out.append('IGate "%s"%%string [] %s []' % (p.lower(), cqNs([q])))
    return "[" + ";".join(out) + "]"

QASM_EVAL_IMPORTS = ("From Coq Require Import String Ascii.\nFrom QI Require Import Base.Scalar Model.Outcome Model.Gates Model.Qasm Spec.QasmLex Spec.QasmGrammar Spec.QasmSem "
                     "Run.FloatInst Run.EvalGates Run.EvalQasm.")
