"""Generation of gate-application cases and their rendering as Gallina terms (families C01 C03 C05)."""
import itertools, math, cmath
from .common import *

KINDS = ["H", "X", "Y", "Z", "I", "S", "Sdag", "T", "Tdag", "P", "RX", "RY", "RZ", "U2", "RYP", "RYPdag",
         "CNOT", "SWAP", "Toffoli", "Match"]
NPARAMS = {"P": 1, "RX": 1, "RY": 1, "RZ": 1, "RYP": 2, "RYPdag": 2, "Match": 3}

def rand_unitary(rng):
    a, b, g, d = (rng.uniform(-math.pi, math.pi) for _ in range(4))
    c, s = math.cos(g / 2), math.sin(g / 2)
    ph = cmath.exp(1j * a)
    m = [ph * cmath.exp(-1j * (b + d) / 2) * c, -ph * cmath.exp(-1j * (b - d) / 2) * s,
         ph * cmath.exp(1j * (b - d) / 2) * s, ph * cmath.exp(1j * (b + d) / 2) * c]
    out = []
    for z in m:
        out += [z.real, z.imag]
    return out

def structured_unitaries(rng):
    """exact 2x2 unitaries with exact zeros / real / imaginary entries: diagonal (U00 != 1), anti-diagonal, real, plus
    diagonal and anti-diagonal ones with generic phases (a fast path for a special shape must still apply the whole matrix)"""
    e = lambda t: cmath.exp(1j * t)
    a, b = rng.uniform(-3, 3), rng.uniform(-3, 3)
    ms = [[-1j, 0, 0, 1j], [-1, 0, 0, 1], [1j, 0, 0, 1], [-1, 0, 0, -1], [1, 0, 0, -1j], [e(a), 0, 0, e(b)],
          [0, 1, 1, 0], [0, -1j, 1j, 0], [0, 1j, 1j, 0], [0, -1, 1, 0], [0, e(a), e(b), 0],
          [0.6, 0.8, -0.8, 0.6], [0.6, 0.8j, 0.8j, 0.6], [0.8, -0.6, 0.6, 0.8]]
    out = []
    for m in ms:
        o = []
        for z in m:
            z = complex(z); o += [z.real, z.imag]
        out.append([float2bits(x) for x in o])
    return out

SPECIAL_ANGLES = [0.0, math.pi, -math.pi, 2 * math.pi, -2 * math.pi, 4 * math.pi, -4 * math.pi, 3 * math.pi, 6 * math.pi, 8 * math.pi,
                  math.pi / 2, -math.pi / 2, math.pi / 4, 3 * math.pi / 2, 1e-300, 1e-9, 1e300, -0.0, 4.0, 1.0, 720.0]

def rand_params(rng, kind, special=False):
    if kind == "U2":
        return [float2bits(x) for x in rand_unitary(rng)]
    k = NPARAMS.get(kind, 0)
    if special:
        return [float2bits(rng.choice(SPECIAL_ANGLES)) for _ in range(k)]
    return [float2bits(rng.uniform(-6.5, 6.5)) for _ in range(k)]

def rand_vec(rng, n, style):
    dim = 1 << n
    if style == "generic":          # un-normalised complex
        return [float2bits(rng.uniform(-1, 1)) for _ in range(2 * dim)]
    if style == "normalised":
        xs = [rng.gauss(0, 1) for _ in range(2 * dim)]
        nrm = math.sqrt(sum(x * x for x in xs))
        return [float2bits(x / nrm) for x in xs]
    if style == "tiny":             # every amplitude around 1e-9 (squared magnitudes far below f64::EPSILON)
        return [float2bits(rng.uniform(-1, 1) * 1e-9) for _ in range(2 * dim)]
    if style == "mixed":            # amplitudes of order 1 next to amplitudes of order 1e-9
        return [float2bits(rng.uniform(-1, 1) * (1e-9 if rng.random() < 0.5 else 1.0)) for _ in range(2 * dim)]
    if style == "axis":             # exact zeros next to purely real, purely imaginary and generic amplitudes
        v = []
        for _ in range(dim):
            c = rng.random()
            x, y = rng.uniform(-1, 1), rng.uniform(-1, 1)
            v += [0.0, 0.0] if c < 0.35 else [x, 0.0] if c < 0.55 else [0.0, y] if c < 0.8 else [x, y]
        if not any(v): v[-1] = 0.7
        return [float2bits(x) for x in v]
    if style == "dominant":         # one amplitude of order 1 (at |0..0> half of the time), all others of order 1e-5 .. 1e-7: the weight of
        k = 0 if rng.random() < 0.5 else rng.randrange(dim)   # most control branches is far below single-precision epsilon, yet not zero
        sc = rng.choice([1e-5, 1e-6, 1e-7])
        xs = [rng.uniform(-1, 1) * sc for _ in range(2 * dim)]
        xs[2 * k], xs[2 * k + 1] = 0.6, -0.8
        nrm = math.sqrt(sum(x * x for x in xs))
        return [float2bits(x / nrm) for x in xs]
    if style == "spike":            # one nonzero amplitude, generic phase
        k = rng.randrange(dim)
        v = [0.0] * (2 * dim)
        v[2 * k], v[2 * k + 1] = 0.6, -0.8
        return [float2bits(x) for x in v]
    raise ValueError(style)

def placements(n, kind):
    """all (targets, controls) placements that are valid for the gate on n qubits"""
    res = []
    qs = list(range(n))
    if kind == "SWAP":
        for t1 in qs:
            for t2 in qs:
                if t1 != t2:
                    rest = [q for q in qs if q not in (t1, t2)]
                    for r in range(len(rest) + 1):
                        for cs in itertools.combinations(rest, r):
                            res.append(([t1, t2], list(cs)))
    elif kind == "Match":
        for t in range(n - 1):
            rest = [q for q in qs if q not in (t, t + 1)]
            for r in range(len(rest) + 1):
                for cs in itertools.combinations(rest, r):
                    res.append(([t], list(cs)))
    elif kind == "CNOT":
        for t in qs:
            for c in qs:
                if c != t:
                    res.append(([t], [c]))
    elif kind == "Toffoli":
        for t in qs:
            for c1 in qs:
                for c2 in qs:
                    if len({t, c1, c2}) == 3:
                        res.append(([t], [c1, c2]))
    else:
        for t in qs:
            rest = [q for q in qs if q != t]
            for r in range(len(rest) + 1):
                for cs in itertools.combinations(rest, r):
                    res.append(([t], list(cs)))
    return res

def mk_case(kind, params, n, ts, cs, v, thr):
    return {"op": "gate", "kind": kind, "params": params, "n": n, "ts": ts, "cs": cs, "v": v, "thr": thr}

def coq_op(kind, oracle):
    """Gallina op term (and optional Spec matrix override) from the harness-computed libm values"""
    o = [cqf(x) for x in oracle]
    simple = {"H": "OpH", "X": "OpX", "Y": "OpY", "Z": "OpZ", "I": "OpI", "S": "OpS", "Sdag": "OpSdag", "T": "OpT",
              "Tdag": "OpTdag", "CNOT": "OpCNOT", "SWAP": "OpSWAP", "Toffoli": "OpToffoli"}
    if kind in simple:
        return simple[kind], "None"
    if kind in ("P", "RX", "RY", "RZ"):
        return "(Op%s %s %s)" % (kind, o[0], o[1]), "None"
    if kind == "U2":
        m = "((%s,%s),(%s,%s),(%s,%s),(%s,%s))" % tuple(o)
        return "(OpU2 %s)" % m, "None"
    if kind == "RYP":
        return ("(OpU2 (ry_phase_mat fops %s %s (%s,%s)))" % tuple(o), "(Some (mat_ryp fops %s %s (%s,%s)))" % tuple(o))
    if kind == "RYPdag":
        return ("(OpU2 (ry_phase_dag_mat fops %s %s (%s,%s)))" % tuple(o), "(Some (mat_rypdag fops %s %s (%s,%s)))" % tuple(o))
    if kind == "Match":
        return "(OpMatch %s %s (%s,%s) (%s,%s))" % tuple(o), "None"
    raise ValueError(kind)

def coq_impl_res(res):
    if res["r"] == "ok":
        return "(IOk %s)" % cqvec(res["v"])
    if res["r"] == "err":
        return "IErr"
    return "IPanic"

GATE_IMPORTS = "From QI Require Import Base.Scalar Model.Outcome Model.Gates Spec.Embed Run.FloatInst Run.EvalGates."

def coq_gate_term(case, res):
    par = case["n"] >= case["thr"]
    op, specm = coq_op(case["kind"], res["oracle"])
    return "check_gate_case %s %s %s %s %s %s %s %s" % (
        cqbool(par), op, specm, cqN(case["n"]), cqNs(case["ts"]), cqNs(case["cs"]), cqvec(case["v"]), coq_impl_res(res))

def describe(case):
    return {"kind": case["kind"], "n": case["n"], "targets": case["ts"], "controls": case["cs"],
            "path": "par" if case["n"] >= case["thr"] else "seq",
            "params": [bits2float(p) for p in case["params"]]}


def run_gate_cases(ctx, cases, nproc=8):
    """run gate cases through the crate, then model+Spec inside Coq; returns (results, verdict codes)"""
    results = run_harness(cases, nproc=nproc)
    terms, idx = [], []
    for i, (c, r) in enumerate(zip(cases, results)):
        if r["r"] in ("ok", "err", "panic"):
            terms.append(coq_gate_term(c, r)); idx.append(i)
    outs = coq_eval(ctx, GATE_IMPORTS, terms)
    codes = [None] * len(cases)
    for i, o in zip(idx, outs):
        codes[i] = parseN(o)
    return results, codes
